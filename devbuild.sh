#!/bin/bash
# dev helper: build one harness binary into /dev/shm/vxdev/bin/<id> (scratch copy kept until `devbuild.sh clean`)
export GOFLAGS=-mod=mod GOPROXY=off GOSUMDB=off GOTOOLCHAIN=local GONOSUMDB='*'
D=/dev/shm/vxdev
[ "$1" = clean ] && { rm -rf $D; exit 0; }
id=$1; mkdir -p $D/rain $D/bin $D/work
rsync -a --delete --exclude .git --exclude verifx ${VERIF_REPO:-/repo}/ $D/rain/
rm -rf $D/rain/verifx; mkdir -p $D/rain/verifx
for d in /verif/harness/*/; do n=$(basename $d); [ $n = inject ] && continue; cp -r $d $D/rain/verifx/$n; done
cd $D/rain && go1.26.8 mod edit -require=github.com/anishathalye/porcupine@v1.3.0 && go1.26.8 build ${RACE:+-race} -tags verif -o $D/bin/$id ./verifx/$id && echo built $D/bin/$id
