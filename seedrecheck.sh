#!/bin/bash
# usage: seedrecheck.sh <seed-id> <property> [tier]   re-runs the property's check against /repo + seeded/<seed-id>/patch.diff (scratch copy)
SID=$1; PROP=$2; TIER=${3:-quick}
D=/dev/shm/rs-$SID; rm -rf $D; mkdir -p $D
rsync -a --exclude .git /repo/ $D/
(cd $D && patch -p1 -s < /verif/seeded/$SID/patch.diff) || { echo "PATCH DOES NOT APPLY"; rm -rf $D; exit 8; }
VERIF_REPO=$D VX_OUT_DIR=$D/.verifout /verif/check $PROP $TIER > /tmp/rs-$SID.log 2>&1; rc=$?
echo "recheck $SID: $PROP $TIER exit=$rc"; grep -a "sig=" /tmp/rs-$SID.log | sort | uniq -c | sort -rn | head -5; tail -1 /tmp/rs-$SID.log | cut -c1-200
rm -rf $D
exit $rc
