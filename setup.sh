#!/bin/bash
# setup_cmd: offline; warms the Go build cache (std + rain + harness deps, normal and -race)
set -u
export GOFLAGS=-mod=mod GOPROXY=off GOSUMDB=off GOTOOLCHAIN=local
cd "$(dirname "$0")"
SCR=$(mktemp -d /dev/shm/vx.setup.XXXXXX 2>/dev/null || mktemp -d)
trap 'rm -rf "$SCR"' EXIT
rsync -a --exclude .git /repo/ "$SCR/rain/"
mkdir -p "$SCR/rain/verifx"
for d in harness/*/; do n=$(basename "$d"); [ "$n" = inject ] && continue; cp -r "$d" "$SCR/rain/verifx/$n"; done
if [ -d harness/inject ]; then (cd harness/inject && find . -type f -name '*.go' | while read -r f; do mkdir -p "$SCR/rain/$(dirname "$f")"; cp "$f" "$SCR/rain/$f"; done); fi
cd "$SCR/rain"
go1.26.8 mod edit -require=github.com/anishathalye/porcupine@v1.3.0
go1.26.8 build -tags verif ./... 2>&1 | tail -5
go1.26.8 build -race -tags verif ./verifx/... 2>&1 | tail -5
echo setup done
