#!/bin/bash
# usage: seedprep.sh <agent-worktree> <demo-pkg-dir>   -> creates <wt>/SEEDED/{patch.diff,demo_test.go,README.md}
WT=$1; PKG=$2
mkdir -p $WT/SEEDED
git -C $WT diff > $WT/SEEDED/patch.diff
cp $WT/$PKG/seeded_demo_test.go $WT/SEEDED/demo_test.go
cp $WT/SEED_README.md $WT/SEEDED/README.md 2>/dev/null
wc -l $WT/SEEDED/patch.diff
