#!/bin/bash
# usage: sweep.sh <tier> <seed> [ids...]   runs the checks one after another, appends one line per check to sweeps/<tier>-seed<seed>.log
TIER=$1; SEED=$2; shift; shift
IDS=${@:-C01 C02 C03 C04 C05 C06 C07 C08 C09 C10 C11 C12 C13 C14 C15 C16 C17 C18 C19 C20}
mkdir -p /verif/sweeps
for id in $IDS; do
  t0=$(date +%s)
  VERIF_SEED=$SEED /verif/check $id $TIER > /tmp/sweep-$id-$TIER-$SEED.out 2>&1; rc=$?
  t1=$(date +%s)
  nv=$(grep -a -c "^VIOLATION" /tmp/sweep-$id-$TIER-$SEED.out)
  echo "$id tier=$TIER seed=$SEED exit=$rc violations=$nv wall=$((t1-t0))s $(tail -1 /tmp/sweep-$id-$TIER-$SEED.out | cut -c1-160)" >> /verif/sweeps/$TIER-seed$SEED.log
done
