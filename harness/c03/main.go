// C03: upload integrity. A partially complete seeding session (memstore) is
// queried by scripted leechers with generated request streams; every piece
// frame is matched against the outstanding requests, ground truth, the
// seeder's advertised pieces and the choke / allowed-fast state.
package main

import (
	"bytes"
	"fmt"
	"math/rand"
	"os"
	"path/filepath"
	"sync"
	"time"

	"github.com/cenkalti/rain/v2/internal/cachedpiece"
	"github.com/cenkalti/rain/v2/internal/filesection"
	"github.com/cenkalti/rain/v2/internal/logger"
	"github.com/cenkalti/rain/v2/internal/piece"
	"github.com/cenkalti/rain/v2/internal/piececache"
	"github.com/cenkalti/rain/v2/torrent"
	"github.com/cenkalti/rain/v2/verifx/evlog"
	"github.com/cenkalti/rain/v2/verifx/gen"
	"github.com/cenkalti/rain/v2/verifx/memstore"
	"github.com/cenkalti/rain/v2/verifx/refpeer"
	"github.com/cenkalti/rain/v2/verifx/refwire"
	"github.com/cenkalti/rain/v2/verifx/sess"
	"github.com/cenkalti/rain/v2/verifx/vx"
)

var run *vx.Run

type cfgSpec struct {
	BlockSize int64
	CacheSize int64
	TTL       time.Duration
	MaxReqIn  int
	AFSet     int
	Reads     uint
}

func (c cfgSpec) String() string {
	return fmt.Sprintf("ReadCacheBlockSize=%d ReadCacheSize=%d TTL=%s MaxRequestsIn=%d AllowedFastSet=%d ParallelReads=%d", c.BlockSize, c.CacheSize, c.TTL, c.MaxReqIn, c.AFSet, c.Reads)
}

type req struct{ idx, beg, ln uint32 }

// one leecher connection: sends a generated stream, validates every piece frame online
type leech struct {
	name     string
	conn     *refpeer.Conn
	l        *gen.Layout
	truth    []byte
	np       int
	fast     bool
	mu       sync.Mutex
	out      map[req]int // outstanding requests (multiset)
	have     []bool      // what the seeder advertised
	choked   bool        // last choke/unchoke seen from the seeder
	af       map[uint32]bool
	viol     [][2]string
	frames   int
	payload  int64
	rejects  int
	done     chan struct{}
}

func (le *leech) bad(sig, f string, a ...any) {
	if len(le.viol) < 3 {
		le.viol = append(le.viol, [2]string{sig, fmt.Sprintf(f, a...)})
	}
}

func (le *leech) pieceLen(i uint32) int64 {
	pl := int64(le.l.PieceLen)
	if int(i) == le.np-1 {
		return le.l.Total() - int64(le.np-1)*pl
	}
	return pl
}

func (le *leech) reader() {
	defer close(le.done)
	for {
		m, err := le.conn.Read(0)
		if err != nil {
			return
		}
		if m.KeepAlive {
			continue
		}
		le.mu.Lock()
		switch m.ID {
		case refwire.Bitfield:
			for i := 0; i < le.np; i++ {
				le.have[i] = refwire.BitSet(m.Data, i)
			}
		case refwire.HaveAll:
			for i := range le.have {
				le.have[i] = true
			}
		case refwire.Have:
			if int(m.Index) < le.np {
				le.have[m.Index] = true
			}
		case refwire.Choke:
			le.choked = true
		case refwire.Unchoke:
			le.choked = false
		case refwire.AllowedFast:
			le.af[m.Index] = true
		case refwire.Reject:
			// a reject does not retire the request in this bookkeeping: the client also answers every
			// cancel with a reject, even when the block has been sent already
			le.rejects++
		case refwire.Piece:
			le.frames++
			le.payload += int64(len(m.Data))
			k := req{m.Index, m.Begin, uint32(len(m.Data))}
			if le.out[k] == 0 {
				// same index/begin with another length?
				other := ""
				for o, n := range le.out {
					if n > 0 && o.idx == m.Index && o.beg == m.Begin {
						other = fmt.Sprintf("requested length %d", o.ln)
					}
				}
				if other != "" {
					le.bad("piece-length-differs-from-request", "piece(#%d, begin %d) carries %d bytes, %s", m.Index, m.Begin, len(m.Data), other)
				} else {
					le.bad("piece-answers-no-request", "piece(#%d, begin %d, %d bytes) answers no outstanding request of this connection", m.Index, m.Begin, len(m.Data))
				}
				le.mu.Unlock()
				continue
			}
			le.out[k]--
			// was the request one that must never be answered with data?
			switch {
			case int(m.Index) >= le.np:
				le.bad("served-out-of-range-index", "data sent for piece index %d of %d", m.Index, le.np)
			case len(m.Data) == 0:
				le.bad("served-zero-length", "zero-length piece frame for #%d begin %d", m.Index, m.Begin)
			case len(m.Data) > 16384:
				le.bad("served-oversized-request", "%d bytes served for one request", len(m.Data))
			case int64(m.Begin)+int64(len(m.Data)) > le.pieceLen(m.Index):
				le.bad("served-out-of-bounds", "piece(#%d, begin %d, len %d) beyond the piece length %d", m.Index, m.Begin, len(m.Data), le.pieceLen(m.Index))
			case !le.have[m.Index]:
				le.bad("served-piece-not-held", "data sent for piece %d which the client never advertised", m.Index)
			default:
				base := int64(m.Index)*int64(le.l.PieceLen) + int64(m.Begin)
				if !bytes.Equal(m.Data, le.truth[base:base+int64(len(m.Data))]) {
					first := 0
					for first < len(m.Data) && m.Data[first] == le.truth[base+int64(first)] {
						first++
					}
					le.bad("served-wrong-bytes", "piece(#%d, begin %d, len %d) differs from the torrent's content at +%d", m.Index, m.Begin, len(m.Data), first)
				}
				if le.choked && !le.af[m.Index] {
					le.bad("served-while-choking", "piece(#%d, begin %d) sent after a choke and without an allowed-fast grant", m.Index, m.Begin)
				}
			}
		}
		le.mu.Unlock()
	}
}

func (le *leech) request(q req) {
	le.mu.Lock()
	le.out[q]++
	le.mu.Unlock()
	le.conn.Send(refwire.Msg{ID: refwire.Request, Index: q.idx, Begin: q.beg, Length: q.ln})
}

var b32 = []uint32{0, 1, 16383, 16384, 16385, 1 << 31, 1<<32 - 1, 1<<32 - 16384, 1<<31 - 1}

func genStream(r *rand.Rand, l *gen.Layout, cs cfgSpec, valid bool) []req {
	np := l.NumPieces()
	var out []req
	n := 20 + r.Intn(120)
	for i := 0; i < n; i++ {
		idx := uint32(r.Intn(np))
		plen := int64(l.PieceLen)
		if int(idx) == np-1 {
			plen = l.Total() - int64(np-1)*int64(l.PieceLen)
		}
		var q req
		q.idx = idx
		switch r.Intn(8) {
		case 0: // aligned block
			nb := (plen + 16383) / 16384
			b := r.Int63n(nb) * 16384
			ln := plen - b
			if ln > 16384 {
				ln = 16384
			}
			q.beg, q.ln = uint32(b), uint32(ln)
		case 1, 2: // crosses a read-cache block boundary
			if plen > cs.BlockSize {
				k := 1 + r.Int63n((plen-1)/cs.BlockSize)
				b := k*cs.BlockSize - 1 - r.Int63n(min64(16383, k*cs.BlockSize))
				ln := 2 + r.Int63n(16383)
				if b+ln > plen {
					ln = plen - b
				}
				if b >= 0 && ln > 0 {
					q.beg, q.ln = uint32(b), uint32(ln)
					break
				}
			}
			fallthrough
		case 3, 4: // unaligned inside
			b := r.Int63n(plen)
			ln := 1 + r.Int63n(min64(16384, plen-b))
			q.beg, q.ln = uint32(b), uint32(ln)
		case 5: // tail of the piece
			ln := 1 + r.Int63n(min64(16384, plen))
			q.beg, q.ln = uint32(plen-ln), uint32(ln)
		case 6: // one byte
			q.beg, q.ln = uint32(r.Int63n(plen)), 1
		default: // repeat an earlier one
			if len(out) > 0 {
				q = out[r.Intn(len(out))]
			} else {
				q.beg, q.ln = 0, uint32(min64(16384, plen))
			}
		}
		out = append(out, q)
	}
	if !valid {
		// the stream ends with one request that must never be answered with data (it may end the connection)
		var q req
		lastLen := uint32(l.Total() - int64(np-1)*int64(l.PieceLen))
		switch r.Intn(9) {
		case 6: // crosses the end of the (shorter) last piece but stays inside the nominal piece length
			if lastLen > 1 {
				q = req{uint32(np - 1), lastLen - 1, 2}
			} else {
				q = req{uint32(np - 1), lastLen, 1}
			}
		case 7:
			q = req{uint32(np - 1), lastLen, 1}
		case 8:
			b := uint32(0)
			if lastLen > 16000 {
				b = lastLen - 16000
			}
			q = req{uint32(np - 1), b, 16384}
			if int64(b)+16384 <= int64(lastLen) {
				q = req{uint32(np - 1), lastLen - 1, 16384}
			}
		case 0:
			q = req{uint32(np) + uint32(r.Intn(3)), 0, 16384}
		case 1:
			q = req{uint32(r.Intn(np)), b32[r.Intn(len(b32))], 0}
		case 2:
			q = req{uint32(r.Intn(np)), 0, 16385 + uint32(r.Intn(100000))}
		case 3:
			q = req{uint32(r.Intn(np)), b32[5+r.Intn(4)], 16384} // begin+length wraps 32 bits
		case 4:
			q = req{uint32(r.Intn(np)), uint32(l.PieceLen) - 1, 2}
		default:
			q = req{b32[5+r.Intn(4)], 0, 16384}
		}
		out = append(out, q)
	}
	return out
}

func min64(a, b int64) int64 {
	if a < b {
		return a
	}
	return b
}

func session(k int) {
	id := fmt.Sprintf("c03-%d", k)
	r := run.Rand("c03", k)
	cs := cfgSpec{BlockSize: []int64{1000, 16384, 20000, 131072, 4096, 7}[r.Intn(6)], TTL: []time.Duration{time.Millisecond, time.Minute, 20 * time.Millisecond}[r.Intn(3)],
		MaxReqIn: []int{1, 3, 250}[r.Intn(3)], AFSet: []int{0, 3, 10}[r.Intn(3)], Reads: uint(1 + r.Intn(3))}
	cs.CacheSize = []int64{0, cs.BlockSize, 3 * cs.BlockSize, 64 << 20}[r.Intn(4)]
	var l *gen.Layout
	for {
		l = gen.RandomLayout(r, 4, 400_000)
		if l.NumPieces() <= 30 && l.NumPieces() >= 2 {
			break
		}
	}
	run.CaseStart(id + " " + cs.String() + " " + l.String())
	defer run.CaseEndDeferred(id + " " + cs.String() + " " + l.String())
	truth := l.Truth()
	info := l.InfoBytes(truth)
	np := l.NumPieces()
	missing := map[int]bool{}
	for i := 0; i < np; i++ {
		if r.Intn(5) == 0 {
			missing[i] = true
		}
	}
	if len(missing) == np {
		delete(missing, 0)
	}
	dir := filepath.Join(run.Work, fmt.Sprintf("s%d", k))
	os.MkdirAll(dir, 0o755)
	defer os.RemoveAll(dir)
	prov := memstore.NewProvider(filepath.Join(dir, "mem"))
	tid := fmt.Sprintf("t%d", k)
	st := prov.Get(tid)
	// stored data: truth with the missing pieces zeroed
	stored := append([]byte(nil), truth...)
	for i := range missing {
		off := int64(i) * int64(l.PieceLen)
		end := off + int64(l.PieceLen)
		if end > int64(len(stored)) {
			end = int64(len(stored))
		}
		for b := off; b < end; b++ {
			stored[b] = 0x11
		}
	}
	for fi, f := range l.Files {
		if f.Pad {
			continue
		}
		off, end := l.FileRange(fi)
		st.Put(filepath.FromSlash(l.JoinedPath(fi)), stored[off:end])
	}
	s, cfg, err := sess.New(sess.Opts{Dir: dir, Storage: prov, Mutate: func(c *torrent.Config) {
		c.ReadCacheBlockSize = cs.BlockSize
		c.ReadCacheSize = cs.CacheSize
		c.ReadCacheTTL = cs.TTL
		c.MaxRequestsIn = cs.MaxReqIn
		c.AllowedFastSet = cs.AFSet
		c.ParallelReads = cs.Reads
		c.UnchokedPeers = 2
		c.OptimisticUnchokedPeers = 1
	}})
	if err != nil {
		run.Inconclusive("session: " + err.Error())
		return
	}
	defer s.Close()
	t, err := s.AddTorrent(bytes.NewReader(gen.TorrentBytes(info, nil, nil)), &torrent.AddTorrentOptions{ID: tid})
	if err != nil {
		run.Inconclusive("add: " + err.Error())
		return
	}
	// wait until verification is over (Downloading or Seeding)
	if _, ok := sess.WaitStatus(t, 20*time.Second, torrent.Downloading, torrent.Seeding); !ok {
		run.Inconclusive(fmt.Sprintf("c03-%d: torrent did not finish verifying", k))
		return
	}
	stt := t.Stats()
	if int(stt.Pieces.Have) != np-len(missing) {
		// a piece made only of padding verifies regardless of the zeroing; accept >=
		if int(stt.Pieces.Have) < np-len(missing) {
			run.Inconclusive(fmt.Sprintf("c03-%d: seeder holds %d pieces, expected %d", k, stt.Pieces.Have, np-len(missing)))
			return
		}
	}
	addr := sess.ListenAddr(cfg, t)
	ih := gen.InfoHash(info)
	log := &evlog.Log{}
	nl := 1 + r.Intn(3)
	var wg sync.WaitGroup
	var vmu sync.Mutex
	var allViol [][2]string
	var totalFrames, totalReq, totalRejects int
	var totalPayload int64
	run.Eval(1)
	for li := 0; li < nl; li++ {
		wg.Add(1)
		go func(li int) {
			defer wg.Done()
			lr := rand.New(rand.NewSource(r.Int63() + int64(li)))
			ip := sess.NextIP()
			fast := lr.Intn(3) != 0
			rounds := 2 + lr.Intn(2)
			for round := 0; round < rounds; round++ {
				var pid [20]byte
				copy(pid[:], fmt.Sprintf("-LE0001-%02d%02d%08d", li, round, k%100000000))
				c, err := refpeer.Dial(fmt.Sprintf("leech%d", li), ip, addr, refpeer.HSOpts{InfoHash: ih, PeerID: pid, Fast: fast, Ext: true, Crypto: []string{"plain", "rc4", "both"}[lr.Intn(3)], Seed: lr.Int63()}, log)
				if err != nil {
					time.Sleep(50 * time.Millisecond)
					continue
				}
				le := &leech{name: c.Name, conn: c, l: l, truth: truth, np: np, fast: fast, out: map[req]int{}, have: make([]bool, np), choked: true, af: map[uint32]bool{}, done: make(chan struct{})}
				go le.reader()
				if fast {
					c.Send(refwire.Msg{ID: refwire.HaveNone})
				}
				time.Sleep(20 * time.Millisecond) // let the bitfield and allowed-fast grants arrive
				stream := genStream(lr, l, cs, lr.Intn(10) < 3)
				// a few requests while still choked (allowed-fast or not)
				pre := lr.Intn(6)
				for i := 0; i < pre && i < len(stream); i++ {
					le.request(stream[i])
				}
				c.Send(refwire.Msg{ID: refwire.Interested})
				sess.WaitFor(3*time.Second, func() bool { le.mu.Lock(); defer le.mu.Unlock(); return !le.choked })
				for i, q := range stream {
					le.request(q)
					if i%7 == 3 && lr.Intn(3) == 0 {
						c.Send(refwire.Msg{ID: refwire.Cancel, Index: q.idx, Begin: q.beg, Length: q.ln})
					}
					if i%16 == 15 {
						time.Sleep(time.Duration(lr.Intn(4)) * time.Millisecond)
					}
				}
				// wait until the answers stop coming
				last := -1
				for i := 0; i < 200; i++ {
					le.mu.Lock()
					f := le.frames + le.rejects
					le.mu.Unlock()
					if f == last && i > 4 {
						break
					}
					last = f
					time.Sleep(15 * time.Millisecond)
				}
				c.Close()
				<-le.done
				vmu.Lock()
				allViol = append(allViol, le.viol...)
				totalFrames += le.frames
				totalReq += len(stream) + pre
				totalRejects += le.rejects
				totalPayload += le.payload
				vmu.Unlock()
			}
		}(li)
	}
	wg.Wait()
	up := t.Stats().Bytes.Uploaded
	for _, v := range allViol {
		run.Violation(v[0], fmt.Sprintf("session %d (%s; %s; missing pieces %v): %s", k, cs, l, keysOf(missing), v[1]), map[string]any{"session": k, "config": cs.String(), "layout": l.String()})
	}
	run.Count("requests_sent", int64(totalReq))
	run.Count("piece_frames_checked", int64(totalFrames))
	run.Count("rejects_seen", int64(totalRejects))
	run.Count("payload_bytes", totalPayload)
	_ = up
	if totalFrames > 0 {
		run.Distinct(vx.Hash(cs.String(), l.String(), totalFrames, totalRejects))
	}
	if k%25 == 1 {
		run.Sample(map[string]any{"config": cs.String(), "layout": l.String(), "missing_pieces": keysOf(missing), "leechers": nl, "requests": totalReq, "piece_frames": totalFrames, "rejects": totalRejects})
	}
}

func keysOf(m map[int]bool) []int {
	var o []int
	for k := range m {
		o = append(o, k)
	}
	return o
}

// ---- unit-level companion: the cached piece reader under concurrency, eviction and expiry

type sliceFile struct{ data []byte }

func (s sliceFile) ReadAt(p []byte, off int64) (int, error) {
	n := copy(p, s.data[off:])
	return n, nil
}
func (s sliceFile) WriteAt(p []byte, off int64) (int, error) { return len(p), nil }

func cachedCase(k int) {
	id := fmt.Sprintf("cached-%d", k)
	r := run.Rand("cached", k)
	plen := int64(1 + r.Intn(300000))
	bs := []int64{1000, 16384, 20000, 131072, 7, 4096}[r.Intn(6)]
	csize := []int64{0, bs, 3 * bs, 1 << 30}[r.Intn(4)]
	ttl := []time.Duration{time.Millisecond, 5 * time.Millisecond, time.Minute}[r.Intn(3)]
	run.CaseStart(fmt.Sprintf("%s pieceLen=%d block=%d cache=%d ttl=%s", id, plen, bs, csize, ttl))
	defer run.CaseEndDeferred(fmt.Sprintf("%s pieceLen=%d block=%d cache=%d ttl=%s", id, plen, bs, csize, ttl))
	data := make([]byte, plen)
	r.Read(data)
	// two sections, to involve the section reader as well
	cut := r.Int63n(plen + 1)
	pi := &piece.Piece{Index: uint32(k), Length: uint32(plen), Data: filesection.Piece{
		{File: sliceFile{data[:cut]}, Offset: 0, Length: cut, Name: "a"},
		{File: sliceFile{data[cut:]}, Offset: 0, Length: plen - cut, Name: "b"},
	}}
	cache := piececache.New(csize, ttl, uint(1+r.Intn(3)))
	defer cache.Close()
	var pid [20]byte
	var wg sync.WaitGroup
	var mu sync.Mutex
	var bad []string
	nread := 0
	for g := 0; g < 8; g++ {
		wg.Add(1)
		go func(g int) {
			defer wg.Done()
			gr := rand.New(rand.NewSource(int64(k)*100 + int64(g)))
			cp := cachedpiece.New(pi, cache, bs, pid)
			for i := 0; i < 150; i++ {
				var off, ln int64
				switch gr.Intn(4) {
				case 0:
					kk := gr.Int63n(plen/bs + 1)
					off = kk*bs - gr.Int63n(16384)
					if off < 0 {
						off = 0
					}
				case 1:
					off = gr.Int63n(plen)
				default:
					off = gr.Int63n(plen/16384+1) * 16384
				}
				if off >= plen {
					off = plen - 1
				}
				ln = 1 + gr.Int63n(16384)
				if off+ln > plen {
					ln = plen - off
				}
				b := make([]byte, ln)
				n, err := cp.ReadAt(b, off)
				mu.Lock()
				nread++
				if err != nil || int64(n) != ln || !bytes.Equal(b[:n], data[off:off+int64(n)]) {
					if len(bad) < 3 {
						bad = append(bad, fmt.Sprintf("ReadAt(off %d, len %d) = (%d, %v), content ok=%v", off, ln, n, err, bytes.Equal(b[:n], data[off:off+int64(n)])))
					}
				}
				mu.Unlock()
				if gr.Intn(20) == 0 {
					time.Sleep(time.Millisecond)
				}
			}
		}(g)
	}
	wg.Wait()
	run.Eval(1)
	run.Count("cached_reads", int64(nread))
	if sz := cache.Size(); sz > csize && csize > 0 {
		run.Violation("read-cache-over-size", fmt.Sprintf("cached %d: cache holds %d bytes, limit %d", k, sz, csize), nil)
	}
	for _, b := range bad {
		run.Violation("cached-read-short-or-wrong", fmt.Sprintf("cached %d (piece %d bytes, cache block %d, cache size %d, ttl %s): %s", k, plen, bs, csize, ttl, b), map[string]any{"piece_len": plen, "block": bs, "cache": csize})
	}
	run.Distinct(fmt.Sprintf("cached|%d|%d|%d|%s", plen, bs, csize, ttl))
}

func main() {
	run = vx.Begin("C03", "exploration",
		"(a) seeding sessions (memstore, some pieces deliberately missing) over a configuration lattice ReadCacheBlockSize {7,1000,4096,16384,20000,131072} x ReadCacheSize {0,1,3 blocks,large} x TTL {1ms,20ms,1min} x MaxRequestsIn {1,3,250} x AllowedFastSet {0,3,10}; 1-3 scripted leechers (plain/RC4, fast/non-fast) send 20-140 requests each per connection: aligned, unaligned, crossing cache-block boundaries, piece tails, single bytes, repeats, cancels, requests while choked, plus one request that must never be served (bad index, zero length, >16 KiB, 32-bit wrap, out of bounds); every piece frame is matched against outstanding requests, truth, advertised pieces and choke/allowed-fast state; (b) cachedpiece.ReadAt with 8 concurrent readers on caches of 0/1/3 blocks with 1 ms expiry; (c) 2-41 pieces of 2-25 cache blocks each sharing one warm cache, read in order and then at random by 4 readers. distinct = distinct (configuration, layout, answer counts)")
	logger.Disable()
	vx.StartCanary()
	switch vx.ChildRole() {
	case "sess":
		lo, hi := 0, 0
		fmt.Sscanf(os.Getenv("VX_RANGE"), "%d-%d", &lo, &hi)
		for k := lo; k < hi; k++ {
			if run.Violations() >= 4 {
				break
			}
			session(k)
		}
		run.Finish(0)
	case "cached":
		lo, hi := 0, 0
		fmt.Sscanf(os.Getenv("VX_RANGE"), "%d-%d", &lo, &hi)
		for k := lo; k < hi; k++ {
			if run.Violations() >= 4 {
				break
			}
			cachedCase(k)
			if k%4 == 0 {
				cachedMultiCase(k)
			}
		}
		run.Finish(0)
	}
	var wg sync.WaitGroup
	spawnRange := func(role string, n, children int, prefix string) {
		per := (n + children - 1) / children
		for c := 0; c < children; c++ {
			lo, hi := c*per, (c+1)*per
			if hi > n {
				hi = n
			}
			if lo >= hi {
				continue
			}
			wg.Add(1)
			go func(lo, hi int) {
				defer wg.Done()
				for lo < hi {
					res := run.Spawn(role, []string{fmt.Sprintf("VX_RANGE=%d-%d", lo, hi)}, time.Duration(hi-lo)*30*time.Second+2*time.Minute)
					if !res.Crashed && !res.TimedOut {
						return
					}
					k := lo
					fmt.Sscanf(res.OpenCase, prefix+"%d", &k)
					if k < lo {
						k = lo // never go backwards: an unparsable case id must not restart the range
					}
					if res.OpenCase == "" {
						run.Inconclusive("child ended abnormally outside a case: " + res.PanicText)
						return
					}
					logp := run.KeepLog(res, fmt.Sprintf("crash-%s%d.log", prefix, k))
					if res.TimedOut && !res.Crashed {
						run.Inconclusive(fmt.Sprintf("%s%d: child watchdog (log %s)", prefix, k, logp))
					} else {
						run.Violation("crash:"+res.RainFrame, fmt.Sprintf("%s: client code crashed while serving reads: %s at %s (log %s)", res.OpenCase, res.PanicText, res.RainFrame, logp), map[string]any{"case": res.OpenCase, "tail": res.Tail})
					}
					lo = k + 1
				}
			}(lo, hi)
		}
	}
	spawnRange("sess", run.N(96, 3000), 12, "c03-")
	spawnRange("cached", run.N(400, 12000), 4, "cached-")
	wg.Wait()
	run.Assume("a piece frame that arrives after a choke frame on the same connection was written after the choke (TCP order = the client's write order)")
	run.Finish(50)
}
