// Several pieces of one torrent (and two peers) sharing one read cache: what is served for (piece, offset) must
// never be what was cached for another (piece, offset) or another peer's view, whatever the cache holds.
package main

import (
	"bytes"
	"fmt"
	"math/rand"
	"sync"
	"time"

	"github.com/cenkalti/rain/v2/internal/cachedpiece"
	"github.com/cenkalti/rain/v2/internal/filesection"
	"github.com/cenkalti/rain/v2/internal/piece"
	"github.com/cenkalti/rain/v2/internal/piececache"
)

func cachedMultiCase(k int) {
	r := run.Rand("cachedmulti", k)
	bs := []int64{1000, 4096, 16384, 700, 131072}[r.Intn(5)]
	blocksPerPiece := int64(2 + r.Intn(24)) // up to 25 cache blocks per piece
	plen := bs*blocksPerPiece - r.Int63n(bs)
	if bs == 131072 {
		plen = bs*int64(11+r.Intn(3)) - r.Int63n(bs) // large pieces with the default block size
	}
	np := 2 + r.Intn(40)
	if plen*int64(np) > 48<<20 {
		np = int(48 << 20 / plen)
	}
	id := fmt.Sprintf("cached-%d multi pieces=%d pieceLen=%d block=%d", k, np, plen, bs)
	run.CaseStart(id)
	defer run.CaseEndDeferred(id)
	csize := []int64{1 << 30, 1 << 30, 40 * bs}[r.Intn(3)]
	cache := piececache.New(csize, time.Minute, uint(1+r.Intn(3)))
	defer cache.Close()
	datas := make([][]byte, np)
	pis := make([]*piece.Piece, np)
	for i := range pis {
		datas[i] = make([]byte, plen)
		r.Read(datas[i])
		pis[i] = &piece.Piece{Index: uint32(i), Length: uint32(plen), Data: filesection.Piece{{File: sliceFile{datas[i]}, Offset: 0, Length: plen, Name: "a"}}}
	}
	var pid [20]byte
	r.Read(pid[:])
	var mu sync.Mutex
	var bad []string
	nread := 0
	check := func(i int, off, ln int64) {
		cp := cachedpiece.New(pis[i], cache, bs, pid)
		b := make([]byte, ln)
		n, err := cp.ReadAt(b, off)
		mu.Lock()
		nread++
		if err != nil || int64(n) != ln || !bytes.Equal(b[:n], datas[i][off:off+int64(n)]) {
			if len(bad) < 3 {
				whose := ""
				for j := range datas {
					if j != i && int64(n) == ln && off+ln <= int64(len(datas[j])) && bytes.Contains(datas[j], b[:n]) {
						whose = fmt.Sprintf(" (these are bytes of piece %d)", j)
						break
					}
				}
				bad = append(bad, fmt.Sprintf("piece %d ReadAt(off %d, len %d) = (%d, %v), content differs from the piece%s", i, off, ln, n, err, whose))
			}
		}
		mu.Unlock()
	}
	// warm the cache in order: every block of every piece once
	for i := 0; i < np; i++ {
		for off := int64(0); off < plen; off += bs {
			ln := bs
			if ln > 16384 {
				ln = 16384
			}
			if off+ln > plen {
				ln = plen - off
			}
			check(i, off, ln)
		}
	}
	var wg sync.WaitGroup
	for g := 0; g < 4; g++ {
		wg.Add(1)
		go func(g int) {
			defer wg.Done()
			gr := rand.New(rand.NewSource(int64(k)*1000 + int64(g)))
			for n := 0; n < 300; n++ {
				i := gr.Intn(np)
				off := gr.Int63n(plen)
				ln := 1 + gr.Int63n(16384)
				if off+ln > plen {
					ln = plen - off
				}
				check(i, off, ln)
			}
		}(g)
	}
	wg.Wait()
	run.Eval(1)
	run.Count("cached_multi_piece_reads", int64(nread))
	for _, b := range bad {
		run.Violation("served-wrong-bytes:shared-cache", fmt.Sprintf("cachedmulti %d (%d pieces of %d bytes, cache block %d, cache size %d): %s", k, np, plen, bs, csize, b), map[string]any{"pieces": np, "piece_len": plen, "block": bs})
	}
	run.Distinct(fmt.Sprintf("cachedmulti|%d|%d|%d", np, plen, bs))
}
