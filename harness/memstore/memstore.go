// Package memstore is a recording storage.Provider: in-memory files that persist
// across Open/Close (like a disk), with an event log, open-handle accounting and
// delay / fault injection. It is given to rain through Config.CustomStorage.
package memstore

import (
	"fmt"
	"io"
	"os"
	"path/filepath"
	"sync"
	"sync/atomic"
	"time"

	"github.com/cenkalti/rain/v2/internal/storage"
	"github.com/cenkalti/rain/v2/verifx/evlog"
)


type Event struct {
	Seq   int64
	Exit  bool   // false: call entry, true: call return
	Kind  string // open | read | write | close
	Store string
	Name  string
	Off   int64
	Len   int
	Data  []byte // write payload (copy) on entry
	Err   string
	Exist bool
	Size  int64
}

// Hooks customise behaviour; all optional. They are called WITHOUT the store lock.
type Hooks struct {
	OnEvent func(e Event)                                     // every entry/exit
	Delay   func(kind, name string, off int64) time.Duration // before the operation
	Fail    func(kind, name string, off int64) error         // non-nil => operation fails
}

type Provider struct {
	mu     sync.Mutex
	stores map[string]*Store
	Hooks  Hooks
	Root   string
}

func NewProvider(root string) *Provider {
	return &Provider{stores: map[string]*Store{}, Root: root}
}

func (p *Provider) GetStorage(torrentID string) (storage.Storage, error) {
	return p.Get(torrentID), nil
}

func (p *Provider) Get(torrentID string) *Store {
	p.mu.Lock()
	defer p.mu.Unlock()
	s := p.stores[torrentID]
	if s == nil {
		s = &Store{ID: torrentID, files: map[string]*mfile{}, p: p, root: filepath.Join(p.Root, torrentID)}
		p.stores[torrentID] = s
	}
	return s
}

func (p *Provider) OpenHandles() int {
	p.mu.Lock()
	defer p.mu.Unlock()
	n := 0
	for _, s := range p.stores {
		n += int(s.openHandles.Load())
	}
	return n
}

type mfile struct {
	mu   sync.Mutex
	data []byte
}

type Store struct {
	ID          string
	mu          sync.Mutex
	files       map[string]*mfile
	p           *Provider
	root        string
	openHandles atomic.Int64
	OpenNames   []string // every name passed to Open, in order
}

var _ storage.Storage = (*Store)(nil)

func (s *Store) RootDir() string { return s.root }

func (s *Store) ev(e Event) {
	if s.p.Hooks.OnEvent != nil {
		e.Seq = evlog.Next()
		e.Store = s.ID
		s.p.Hooks.OnEvent(e)
	}
}

func (s *Store) pre(kind, name string, off int64) error {
	if d := s.p.Hooks.Delay; d != nil {
		if w := d(kind, name, off); w > 0 {
			time.Sleep(w)
		}
	}
	if f := s.p.Hooks.Fail; f != nil {
		return f(kind, name, off)
	}
	return nil
}

func (s *Store) Open(name string, size int64) (storage.File, bool, error) {
	s.mu.Lock()
	s.OpenNames = append(s.OpenNames, name)
	s.mu.Unlock()
	s.ev(Event{Kind: "open", Name: name, Size: size})
	if err := s.pre("open", name, 0); err != nil {
		s.ev(Event{Kind: "open", Exit: true, Name: name, Err: err.Error()})
		return nil, false, err
	}
	key := filepath.Clean(name)
	s.mu.Lock()
	f, exists := s.files[key]
	if !exists {
		f = &mfile{data: make([]byte, size)}
		s.files[key] = f
	}
	s.mu.Unlock()
	if exists {
		f.mu.Lock()
		if int64(len(f.data)) != size {
			nd := make([]byte, size)
			copy(nd, f.data)
			f.data = nd
		}
		f.mu.Unlock()
	}
	s.openHandles.Add(1)
	s.ev(Event{Kind: "open", Exit: true, Name: name, Exist: exists, Size: size})
	return &handle{s: s, f: f, name: name}, exists, nil
}

// Snapshot returns a copy of a file's content (nil if absent).
func (s *Store) Snapshot(name string) []byte {
	s.mu.Lock()
	f := s.files[filepath.Clean(name)]
	s.mu.Unlock()
	if f == nil {
		return nil
	}
	f.mu.Lock()
	defer f.mu.Unlock()
	return append([]byte(nil), f.data...)
}

func (s *Store) Names() []string {
	s.mu.Lock()
	defer s.mu.Unlock()
	var out []string
	for k := range s.files {
		out = append(out, k)
	}
	return out
}

// Put creates/overwrites a file (external mutation while stopped).
func (s *Store) Put(name string, data []byte) {
	s.mu.Lock()
	defer s.mu.Unlock()
	s.files[filepath.Clean(name)] = &mfile{data: append([]byte(nil), data...)}
}

// Delete removes a file (external mutation while stopped).
func (s *Store) Delete(name string) {
	s.mu.Lock()
	defer s.mu.Unlock()
	delete(s.files, filepath.Clean(name))
}

func (s *Store) Handles() int { return int(s.openHandles.Load()) }

type handle struct {
	s      *Store
	f      *mfile
	name   string
	closed atomic.Bool
}

// ErrClosed wraps os.ErrClosed, as reads and writes on a closed *os.File do.
var ErrClosed = fmt.Errorf("memstore: %w", os.ErrClosed)

func (h *handle) ReadAt(p []byte, off int64) (int, error) {
	h.s.ev(Event{Kind: "read", Name: h.name, Off: off, Len: len(p)})
	if err := h.s.pre("read", h.name, off); err != nil {
		h.s.ev(Event{Kind: "read", Exit: true, Name: h.name, Off: off, Err: err.Error()})
		return 0, err
	}
	if h.closed.Load() {
		h.s.ev(Event{Kind: "read", Exit: true, Name: h.name, Off: off, Err: "closed"})
		return 0, ErrClosed
	}
	h.f.mu.Lock()
	var n int
	var err error
	if off < 0 || off > int64(len(h.f.data)) {
		err = io.EOF
	} else {
		n = copy(p, h.f.data[off:])
		if n < len(p) {
			err = io.EOF
		}
	}
	h.f.mu.Unlock()
	es := ""
	if err != nil {
		es = err.Error()
	}
	h.s.ev(Event{Kind: "read", Exit: true, Name: h.name, Off: off, Len: n, Err: es})
	return n, err
}

func (h *handle) WriteAt(p []byte, off int64) (int, error) {
	h.s.ev(Event{Kind: "write", Name: h.name, Off: off, Len: len(p), Data: append([]byte(nil), p...)})
	if err := h.s.pre("write", h.name, off); err != nil {
		h.s.ev(Event{Kind: "write", Exit: true, Name: h.name, Off: off, Err: err.Error()})
		return 0, err
	}
	if h.closed.Load() {
		h.s.ev(Event{Kind: "write", Exit: true, Name: h.name, Off: off, Err: "closed"})
		return 0, ErrClosed
	}
	h.f.mu.Lock()
	if need := off + int64(len(p)); need > int64(len(h.f.data)) {
		nd := make([]byte, need)
		copy(nd, h.f.data)
		h.f.data = nd
	}
	n := copy(h.f.data[off:], p)
	h.f.mu.Unlock()
	h.s.ev(Event{Kind: "write", Exit: true, Name: h.name, Off: off, Len: n})
	return n, nil
}

func (h *handle) Close() error {
	h.s.ev(Event{Kind: "close", Name: h.name})
	if h.closed.Swap(true) {
		h.s.ev(Event{Kind: "close", Exit: true, Name: h.name, Err: "double close"})
		return ErrClosed
	}
	h.s.openHandles.Add(-1)
	h.s.ev(Event{Kind: "close", Exit: true, Name: h.name})
	return nil
}

// NullProvider is a storage that keeps nothing: writes are discarded, reads return zeros, any size can be
// "allocated". It records the names and sizes passed to Open.
type NullProvider struct {
	mu    sync.Mutex
	Opens []NullOpen
	Root  string
}

type NullOpen struct {
	Torrent string
	Name    string
	Size    int64
}

type nullStorage struct {
	p  *NullProvider
	id string
}

func (p *NullProvider) GetStorage(id string) (storage.Storage, error) {
	return &nullStorage{p: p, id: id}, nil
}
func (s *nullStorage) RootDir() string { return filepath.Join(s.p.Root, s.id) }
func (s *nullStorage) Open(name string, size int64) (storage.File, bool, error) {
	s.p.mu.Lock()
	if len(s.p.Opens) < 100000 {
		s.p.Opens = append(s.p.Opens, NullOpen{s.id, name, size})
	}
	s.p.mu.Unlock()
	return nullFile{}, false, nil
}

func (p *NullProvider) Snapshot() []NullOpen {
	p.mu.Lock()
	defer p.mu.Unlock()
	return append([]NullOpen(nil), p.Opens...)
}

type nullFile struct{}

func (nullFile) ReadAt(b []byte, off int64) (int, error) {
	for i := range b {
		b[i] = 0
	}
	return len(b), nil
}
func (nullFile) WriteAt(b []byte, off int64) (int, error) { return len(b), nil }
func (nullFile) Close() error                             { return nil }
