// Package refweb is a reference HTTP range server for web-seed scenarios: it
// serves files from ground truth, records every request and the peak number of
// concurrent requests, and can misbehave on demand.
package refweb

import (
	"fmt"
	"net"
	"net/http"
	"net/url"
	"strconv"
	"strings"
	"sync"
	"sync/atomic"
	"time"
)

type Request struct {
	At         time.Time
	Path       string
	Begin, End int64 // inclusive range as requested; -1 when absent
	Behaviour  string
}

// Server serves files registered under paths.
type Server struct {
	Name string
	ln   net.Listener
	srv  *http.Server
	mu   sync.Mutex
	file map[string][]byte
	reqs []Request
	// Behaviour decides per request: "ok" | "corrupt" | "short" | "500" | "404" | "stall" | "slow"
	Behaviour func(n int, path string, begin, end int64) string
	cur       atomic.Int32
	Peak      atomic.Int32
	Bytes     atomic.Int64
	stop      chan struct{}
}

func New(name, ip string) (*Server, error) {
	ln, err := net.Listen("tcp4", net.JoinHostPort(ip, "0"))
	if err != nil {
		return nil, err
	}
	s := &Server{Name: name, ln: ln, file: map[string][]byte{}, stop: make(chan struct{})}
	s.srv = &http.Server{Handler: http.HandlerFunc(s.serve)}
	go s.srv.Serve(ln)
	return s, nil
}

// BaseURL ends with a slash, as BEP 19 wants for multi-file torrents.
func (s *Server) BaseURL() string { return "http://" + s.ln.Addr().String() + "/ws/" }
func (s *Server) Addr() *net.TCPAddr { return s.ln.Addr().(*net.TCPAddr) }

// Put registers content for a relative path ("name/dir/file").
func (s *Server) Put(rel string, data []byte) {
	s.mu.Lock()
	s.file["/ws/"+rel] = data
	s.mu.Unlock()
}

func (s *Server) Close() {
	select {
	case <-s.stop:
	default:
		close(s.stop)
	}
	s.srv.Close()
}

// Current is the number of requests being served right now.
func (s *Server) Current() int32 { return s.cur.Load() }

func (s *Server) Requests() []Request {
	s.mu.Lock()
	defer s.mu.Unlock()
	return append([]Request(nil), s.reqs...)
}

func (s *Server) serve(w http.ResponseWriter, r *http.Request) {
	c := s.cur.Add(1)
	defer s.cur.Add(-1)
	for {
		p := s.Peak.Load()
		if c <= p || s.Peak.CompareAndSwap(p, c) {
			break
		}
	}
	path, _ := url.PathUnescape(r.URL.EscapedPath())
	var a, b int64 = -1, -1
	if rg := r.Header.Get("Range"); rg != "" {
		fmt.Sscanf(strings.TrimPrefix(rg, "bytes="), "%d-%d", &a, &b)
	}
	s.mu.Lock()
	data, ok := s.file[path]
	n := len(s.reqs)
	beh := "ok"
	if s.Behaviour != nil {
		beh = s.Behaviour(n, path, a, b)
	}
	s.reqs = append(s.reqs, Request{At: time.Now(), Path: path, Begin: a, End: b, Behaviour: beh})
	s.mu.Unlock()
	if !ok || beh == "404" {
		http.Error(w, "not found", 404)
		return
	}
	if beh == "500" {
		http.Error(w, "boom", 500)
		return
	}
	if a < 0 {
		a, b = 0, int64(len(data))-1
	}
	if b >= int64(len(data)) || a > b {
		http.Error(w, "range", 416)
		return
	}
	body := append([]byte(nil), data[a:b+1]...)
	switch beh {
	case "corrupt":
		if len(body) > 0 {
			body[len(body)/2] ^= 0x3c
		}
	case "short":
		body = body[:len(body)/2]
	}
	w.Header().Set("Content-Length", strconv.Itoa(int(b-a+1)))
	w.Header().Set("Content-Range", fmt.Sprintf("bytes %d-%d/%d", a, b, len(data)))
	w.WriteHeader(206)
	if beh == "stall" {
		if f, ok := w.(http.Flusher); ok {
			f.Flush()
		}
		select {
		case <-r.Context().Done():
		case <-s.stop:
		}
		return
	}
	if beh == "slow" {
		for len(body) > 0 {
			n := 4096
			if n > len(body) {
				n = len(body)
			}
			w.Write(body[:n])
			s.Bytes.Add(int64(n))
			body = body[n:]
			if f, ok := w.(http.Flusher); ok {
				f.Flush()
			}
			time.Sleep(2 * time.Millisecond)
		}
		return
	}
	nw, _ := w.Write(body)
	s.Bytes.Add(int64(nw))
}
