// C13: magnet metadata. (a) magnet links: the client's parser/renderer against
// an independent reference parser, at package level and through the public API
// (AddURI -> Torrent.Magnet()); (b) sessions fed by 1-4 scripted peers that are
// honest or lie about the metadata: only metadata hashing to the link's
// info-hash is adopted, oversized metadata is never requested, one honest peer
// suffices.
package main

import (
	"crypto/sha1"
	"encoding/base32"
	"encoding/hex"
	"fmt"
	"math/rand"
	"net/url"
	"os"
	"path/filepath"
	"sort"
	"strconv"
	"strings"
	"sync"
	"time"

	"github.com/cenkalti/rain/v2/internal/logger"
	"github.com/cenkalti/rain/v2/internal/magnet"
	"github.com/cenkalti/rain/v2/torrent"
	"github.com/cenkalti/rain/v2/verifx/benc"
	"github.com/cenkalti/rain/v2/verifx/evlog"
	"github.com/cenkalti/rain/v2/verifx/gen"
	"github.com/cenkalti/rain/v2/verifx/memstore"
	"github.com/cenkalti/rain/v2/verifx/refpeer"
	"github.com/cenkalti/rain/v2/verifx/sess"
	"github.com/cenkalti/rain/v2/verifx/vx"
)

var run *vx.Run

// ---- independent magnet parser (RFC 3986 query, BEP 9 / BEP 12 style parameters)

type refMagnet struct {
	Hash   [20]byte
	Name   string
	Single []string            // tr=
	Multi  map[int][]string    // tr.N=
	Peers  []string
}

func unesc(s string) (string, bool) {
	var b strings.Builder
	for i := 0; i < len(s); i++ {
		switch s[i] {
		case '+':
			b.WriteByte(' ')
		case '%':
			if i+2 >= len(s)+0 && i+2 > len(s)-1+0 && false {
				return "", false
			}
			if i+2 >= len(s)+0 && i+2 > len(s) {
				return "", false
			}
			if i+3 > len(s) {
				return "", false
			}
			v, err := strconv.ParseUint(s[i+1:i+3], 16, 8)
			if err != nil {
				return "", false
			}
			b.WriteByte(byte(v))
			i += 2
		default:
			b.WriteByte(s[i])
		}
	}
	return b.String(), true
}

func refParse(link string) (*refMagnet, bool) {
	const pfx = "magnet:?"
	if !strings.HasPrefix(link, pfx) {
		return nil, false
	}
	m := &refMagnet{Multi: map[int][]string{}}
	gotHash := false
	for _, kv := range strings.Split(link[len(pfx):], "&") {
		if kv == "" {
			continue
		}
		k, v, _ := strings.Cut(kv, "=")
		k, ok1 := unesc(k)
		v, ok2 := unesc(v)
		if !ok1 || !ok2 {
			return nil, false
		}
		switch {
		case k == "xt" && strings.HasPrefix(v, "urn:btih:") && !gotHash:
			h := v[len("urn:btih:"):]
			var raw []byte
			var err error
			switch len(h) {
			case 40:
				raw, err = hex.DecodeString(h)
			case 32:
				raw, err = base32.StdEncoding.DecodeString(strings.ToUpper(h))
			default:
				return nil, false
			}
			if err != nil {
				return nil, false
			}
			copy(m.Hash[:], raw)
			gotHash = true
		case k == "dn":
			if m.Name == "" {
				m.Name = v
			}
		case k == "tr":
			m.Single = append(m.Single, v)
		case strings.HasPrefix(k, "tr."):
			if n, err := strconv.Atoi(k[3:]); err == nil && n >= 0 {
				m.Multi[n] = append(m.Multi[n], v)
			}
		case k == "x.pe":
			m.Peers = append(m.Peers, v)
		}
	}
	return m, gotHash
}

// tiers as a multiset of sets: canonical strings, sorted
func canonTiers(tiers [][]string) []string {
	var out []string
	for _, t := range tiers {
		if len(t) == 0 {
			continue
		}
		set := map[string]bool{}
		for _, x := range t {
			set[x] = true
		}
		var ks []string
		for k := range set {
			ks = append(ks, k)
		}
		sort.Strings(ks)
		out = append(out, strings.Join(ks, "\x00"))
	}
	sort.Strings(out)
	return out
}

func (m *refMagnet) tiers() [][]string {
	var out [][]string
	for _, s := range m.Single {
		out = append(out, []string{s})
	}
	var ks []int
	for k := range m.Multi {
		ks = append(ks, k)
	}
	sort.Ints(ks)
	for _, k := range ks {
		out = append(out, m.Multi[k])
	}
	return out
}

func sortedCopy(a []string) []string {
	b := append([]string{}, a...)
	sort.Strings(b)
	return b
}

func eqStrs(a, b []string) bool {
	if len(a) != len(b) {
		return false
	}
	for i := range a {
		if a[i] != b[i] {
			return false
		}
	}
	return true
}

var nameAlphabet = []string{"a", "Z", "0", " ", "+", "&", "=", "%", "#", "?", "/", "\\", "é", "日本", "\"", "'", "<", ";", ":", "@", ".", "%41", "\t"}

func genName(r *rand.Rand) string {
	n := r.Intn(12)
	var sb strings.Builder
	for i := 0; i < n; i++ {
		sb.WriteString(nameAlphabet[r.Intn(len(nameAlphabet))])
	}
	return sb.String()
}

func genTracker(r *rand.Rand) string {
	scheme := []string{"http", "udp", "https"}[r.Intn(3)]
	host := []string{"tracker.example.invalid", "10.1.2.3", "t-" + strconv.Itoa(r.Intn(50)) + ".invalid", "[2001:db8::1]"}[r.Intn(4)]
	q := []string{"", "?passkey=a%20b&x=1", "?k=" + url.QueryEscape(genName(r)), "/path with space", "/a+b"}[r.Intn(5)]
	return fmt.Sprintf("%s://%s:%d/announce%s", scheme, host, 1+r.Intn(65535), q)
}

func genPeer(r *rand.Rand) string {
	switch r.Intn(3) {
	case 0:
		return fmt.Sprintf("%d.%d.%d.%d:%d", 1+r.Intn(223), r.Intn(256), r.Intn(256), 1+r.Intn(254), 1+r.Intn(65535))
	case 1:
		return fmt.Sprintf("[2001:db8::%x]:%d", r.Intn(65536), 1+r.Intn(65535))
	default:
		return fmt.Sprintf("peer-%d.example.invalid:%d", r.Intn(100), 1+r.Intn(65535))
	}
}

func genMagnet(r *rand.Rand) magnet.Magnet {
	var m magnet.Magnet
	r.Read(m.InfoHash[:])
	m.Name = genName(r)
	nt := r.Intn(5)
	for i := 0; i < nt; i++ {
		n := 1 + r.Intn(3)
		if r.Intn(2) == 0 {
			n = 1
		}
		var tier []string
		for j := 0; j < n; j++ {
			tier = append(tier, genTracker(r))
		}
		m.Trackers = append(m.Trackers, tier)
	}
	np := r.Intn(4)
	for i := 0; i < np; i++ {
		m.Peers = append(m.Peers, genPeer(r))
	}
	return m
}

func roundTrip(k int) {
	r := run.Rand("rt", k)
	m := genMagnet(r)
	run.Eval(1)
	s := m.String()
	fail := func(sig, f string, a ...any) {
		run.Violation(sig, fmt.Sprintf("round trip %d: ", k)+fmt.Sprintf(f, a...), map[string]any{"link": s, "name": m.Name, "trackers": m.Trackers, "peers": m.Peers})
	}
	// (1) the client's own parser must read the link back
	m2, err := magnet.New(s)
	if err != nil {
		fail("own-link-unparseable", "magnet.New refused a link rendered by String(): %v", err)
		return
	}
	if m2.InfoHash != m.InfoHash {
		fail("roundtrip-infohash", "info-hash %x came back as %x", m.InfoHash, m2.InfoHash)
		return
	}
	if m2.Name != m.Name {
		fail("roundtrip-name", "name %q came back as %q", m.Name, m2.Name)
		return
	}
	if !eqStrs(canonTiers(m.Trackers), canonTiers(m2.Trackers)) {
		fail("roundtrip-tiers", "tracker tiers %v came back as %v", m.Trackers, m2.Trackers)
		return
	}
	if !eqStrs(sortedCopy(m.Peers), sortedCopy(m2.Peers)) {
		fail("roundtrip-peers", "peers %v came back as %v", m.Peers, m2.Peers)
		return
	}
	// (2) an independent parser must read the same values out of the rendered link
	rm, ok := refParse(s)
	if !ok {
		fail("rendered-link-malformed", "the reference parser cannot read the rendered link")
		return
	}
	if rm.Hash != m.InfoHash || rm.Name != m.Name || !eqStrs(canonTiers(rm.tiers()), canonTiers(m.Trackers)) || !eqStrs(sortedCopy(rm.Peers), sortedCopy(m.Peers)) {
		fail("rendered-link-differs", "reference parser reads hash %x name %q tiers %v peers %v", rm.Hash, rm.Name, rm.tiers(), rm.Peers)
		return
	}
	// (3) links written by others: base32 hash, parameter order, tr / tr.N mixes
	alt := "magnet:?"
	var parts []string
	if r.Intn(2) == 0 {
		parts = append(parts, "xt=urn:btih:"+base32.StdEncoding.EncodeToString(m.InfoHash[:]))
	} else {
		parts = append(parts, "xt=urn:btih:"+strings.ToUpper(hex.EncodeToString(m.InfoHash[:])))
	}
	if m.Name != "" {
		parts = append(parts, "dn="+url.QueryEscape(m.Name))
	}
	for i, tier := range m.Trackers {
		for _, t := range tier {
			if len(tier) == 1 && r.Intn(2) == 0 {
				parts = append(parts, "tr="+url.QueryEscape(t))
			} else {
				parts = append(parts, fmt.Sprintf("tr.%d=%s", i+10, url.QueryEscape(t)))
			}
		}
	}
	for _, p := range m.Peers {
		parts = append(parts, "x.pe="+url.QueryEscape(p))
	}
	r.Shuffle(len(parts), func(i, j int) {
		// keep the relative order of tr= parameters (their order is their tier order)
		if strings.HasPrefix(parts[i], "tr=") && strings.HasPrefix(parts[j], "tr=") {
			return
		}
		parts[i], parts[j] = parts[j], parts[i]
	})
	alt += strings.Join(parts, "&")
	m3, err := magnet.New(alt)
	if err != nil {
		run.Violation("foreign-link-refused", fmt.Sprintf("round trip %d: valid link refused: %v", k, err), map[string]any{"link": alt})
		return
	}
	if m3.InfoHash != m.InfoHash || m3.Name != m.Name || !eqStrs(canonTiers(m3.Trackers), canonTiers(m.Trackers)) || !eqStrs(sortedCopy(m3.Peers), sortedCopy(m.Peers)) {
		run.Violation("foreign-link-misread", fmt.Sprintf("round trip %d: link %q read as hash %x name %q tiers %v peers %v; written with hash %x name %q tiers %v peers %v", k, alt, m3.InfoHash, m3.Name, m3.Trackers, m3.Peers, m.InfoHash, m.Name, m.Trackers, m.Peers), nil)
		return
	}
	run.Distinct("rt|" + vx.Hash(s))
	tierOrderKept := true
	for i := range m.Trackers {
		if i >= len(m2.Trackers) || !eqStrs(canonTiers([][]string{m.Trackers[i]}), canonTiers([][]string{m2.Trackers[i]})) {
			tierOrderKept = false
		}
	}
	if !tierOrderKept {
		run.Count("roundtrips_with_tier_order_changed", 1)
	}
	if k < 3 {
		run.Sample(map[string]any{"link": s})
	}
}

// ---- API level: AddURI(stopped) -> Torrent.Magnet()

func apiRoundTrips(lo, hi int) {
	dir := filepath.Join(run.Work, fmt.Sprintf("api%d", lo))
	os.MkdirAll(dir, 0o755)
	defer os.RemoveAll(dir)
	s, _, err := sess.New(sess.Opts{Dir: dir, Storage: memstore.NewProvider(filepath.Join(dir, "mem")), Mutate: func(c *torrent.Config) { c.PortEnd = c.PortBegin + 2000 }})
	if err != nil {
		run.Inconclusive("session: " + err.Error())
		return
	}
	defer s.Close()
	for k := lo; k < hi; k++ {
		r := run.Rand("api", k)
		m := genMagnet(r)
		// https trackers etc. are all supported schemes; keep them
		link := m.String()
		id := fmt.Sprintf("api-%d", k)
		run.CaseStart(id + " " + link)
		ta := time.Now()
		t, err := s.AddURI(link, &torrent.AddTorrentOptions{Stopped: true})
		run.Max("slowest_adduri_ms", time.Since(ta).Milliseconds())
		run.Eval(1)
		if err != nil {
			run.Violation("api-own-link-refused", fmt.Sprintf("api %d: AddURI refused %q: %v", k, link, err), nil)
			run.CaseEnd(id + " " + link)
			continue
		}
		out, err := t.Magnet()
		if err != nil {
			run.Violation("api-magnet-error", fmt.Sprintf("api %d: Magnet() failed for a public magnet torrent: %v", k, err), nil)
		} else if rm, ok := refParse(out); !ok {
			run.Violation("api-exported-link-malformed", fmt.Sprintf("api %d: exported link %q cannot be read by the reference parser", k, out), nil)
		} else if rm.Hash != m.InfoHash || rm.Name != m.Name || !eqStrs(canonTiers(rm.tiers()), canonTiers(m.Trackers)) || !eqStrs(sortedCopy(rm.Peers), sortedCopy(m.Peers)) {
			run.Violation("api-exported-link-differs", fmt.Sprintf("api %d: torrent added with hash %x name %q tiers %v peers %v exports %q", k, m.InfoHash, m.Name, m.Trackers, m.Peers, out), nil)
		} else {
			run.Count("api_roundtrips", 1)
			run.Distinct("api|" + vx.Hash(out))
		}
		tr := time.Now()
		s.RemoveTorrent(t.ID(), false)
		run.Max("slowest_remove_ms", time.Since(tr).Milliseconds())
		run.CaseEnd(id + " " + link)
	}
}

// ---- session level: metadata from honest and lying peers

var lies = []string{"", "prefix-collision", "wrong-total-size", "short-piece", "long-piece", "dup", "unrequested-index", "garbage", "reject", "wrong-content", "stall", "oversize-advert", "other-torrent", "wrong-size-advert"}

func metaScenario(k int) {
	tStart := time.Now()
	defer func() { run.Max("slowest_meta_scenario_ms", time.Since(tStart).Milliseconds()); run.Count("meta_scenario_total_ms", time.Since(tStart).Milliseconds()) }()
	r := run.Rand("meta", k)
	id := fmt.Sprintf("meta-%d", k)
	// info of 1-3 metadata pieces
	nfiles := []int{1, 40, 400, 900}[r.Intn(4)]
	l := &gen.Layout{Name: fmt.Sprintf("c13_%d", k), PieceLen: 16384, Seed: int64(k)}
	for i := 0; i < nfiles; i++ {
		l.Files = append(l.Files, gen.FileSpec{Path: []string{fmt.Sprintf("dir%d", i%7), fmt.Sprintf("file-%04d-%s.bin", i, strings.Repeat("x", r.Intn(20)))}, Length: int64(1 + r.Intn(3))})
	}
	truth := l.Truth()
	info := l.InfoBytes(truth)
	if k%4 == 1 {
		// metadata sizes on the 16 KiB block boundaries: pad the name until the size is exact
		target := []int{16384, 32768, 16383, 16385, 49152, 32767}[r.Intn(6)]
		for len(info) < target-400 {
			i := len(l.Files)
			l.Files = append(l.Files, gen.FileSpec{Path: []string{fmt.Sprintf("dir%d", i%7), fmt.Sprintf("pad-%05d.bin", i)}, Length: 1})
			truth = l.Truth()
			info = l.InfoBytes(truth)
		}
		for try := 0; try < 8 && len(info) != target; try++ {
			d := target - len(info)
			if d > 0 {
				l.Name += strings.Repeat("n", d)
			} else if -d < len(l.Name)-4 {
				l.Name = l.Name[:len(l.Name)+d]
			} else {
				break
			}
			info = l.InfoBytes(truth)
		}
	}
	ih := gen.InfoHash(info)
	other := append([]byte(nil), info...) // same length, different content, valid bencode (a name byte changed)
	if i := strings.Index(string(other), "c13_"); i >= 0 {
		other[i] = 'd'
	}
	npeers := 1 + r.Intn(4)
	var kinds []string
	honest := 0
	for i := 0; i < npeers; i++ {
		kd := lies[r.Intn(len(lies))]
		if r.Intn(3) == 0 {
			kd = ""
		}
		if kd == "" {
			honest++
		}
		kinds = append(kinds, kd)
	}
	parallel := 1 + k%2
	if k%8 == 0 {
		// a liar whose data assembles completely (hash mismatch) next to one honest peer, one download at a time
		kinds = []string{[]string{"wrong-content", "other-torrent", "prefix-collision"}[r.Intn(3)], ""}
		honest = 1
		parallel = 1
	}
	label := fmt.Sprintf("%s metadata=%dB peers=%v parallel=%d", id, len(info), kinds, parallel)
	run.CaseStart(label)
	defer run.CaseEndDeferred(label)
	dir := filepath.Join(run.Work, fmt.Sprintf("m%d", k))
	os.MkdirAll(dir, 0o755)
	defer os.RemoveAll(dir)
	const maxMeta = 64 << 10
	s, _, err := sess.New(sess.Opts{Dir: dir, Storage: memstore.NewProvider(filepath.Join(dir, "mem")), Mutate: func(c *torrent.Config) {
		c.MaxMetadataSize = maxMeta
		c.ParallelMetadataDownloads = parallel
		c.RequestTimeout = time.Second
	}})
	if err != nil {
		run.Inconclusive("session: " + err.Error())
		return
	}
	var closeOnce sync.Once
	closeSession := func() { closeOnce.Do(func() { s.Close() }) }
	defer closeSession()
	log := &evlog.Log{}
	type peerRun struct {
		kind   string
		ln     *refpeer.Listener
		states []*refpeer.SeederState
	}
	var mu sync.Mutex
	var prs []*peerRun
	var wg sync.WaitGroup
	stopAcc := make(chan struct{})
	ct := sess.ContentOf(l, truth)
	for i, kd := range kinds {
		ln, err := refpeer.Listen(fmt.Sprintf("peer%d:%s", i, kd), sess.NextIP(), log)
		if err != nil {
			continue
		}
		pr := &peerRun{kind: kd, ln: ln}
		prs = append(prs, pr)
		cfg := refpeer.SeederCfg{Content: ct, Announce: "bitfield", Unchoke: "on-interested", Metadata: info, MetaLie: kd}
		switch kd {
		case "oversize-advert":
			cfg.MetaLie = ""
			// just above the limit, far above it, and values whose low 32 bits look like a small size
			cfg.MetadataSize = []int{maxMeta + 1 + r.Intn(100000), maxMeta + 1, 1<<31 - 1, 1 << 31, 1<<32 - 1, 1<<32 + 1 + r.Intn(maxMeta), 1<<32 + len(info), 1<<40 + len(info), 1<<62 + len(info)}[r.Intn(9)]
		case "wrong-size-advert":
			cfg.MetaLie = ""
			cfg.MetadataSize = len(info) + []int{-1, 1, 16384, -len(info) + 1}[r.Intn(4)]
		case "other-torrent":
			cfg.MetaLie = ""
			cfg.Metadata = other
		case "prefix-collision":
			// same length, valid bencode, SHA-1 agreeing with the link in its first byte
			cfg.MetaLie = ""
			cand := append([]byte(nil), other...)
			if i := strings.Index(string(cand), "d13_"); i >= 0 {
				for v := 0; v < 200000; v++ {
					copy(cand[i:], fmt.Sprintf("%c%c%c_", 'A'+v%26, 'a'+(v/26)%26, 'a'+(v/676)%26))
					if sha1.Sum(cand)[0] == ih[0] {
						break
					}
				}
			}
			cfg.Metadata = cand
		}
		var pid [20]byte
		copy(pid[:], fmt.Sprintf("-RF0013-%02d%010d", i, k))
		hs := refpeer.HSOpts{InfoHash: ih, PeerID: pid, Fast: r.Intn(2) == 0, Ext: true, Crypto: "auto", Seed: int64(k*10 + i)}
		wg.Add(1)
		go func() {
			defer wg.Done()
			for {
				select {
				case <-stopAcc:
					return
				default:
				}
				c, err := ln.Accept(hs, 300*time.Millisecond)
				if err != nil {
					continue
				}
				st := &refpeer.SeederState{}
				mu.Lock()
				pr.states = append(pr.states, st)
				mu.Unlock()
				wg.Add(1)
				go func() { defer wg.Done(); refpeer.RunSeeder(c, cfg, st); c.Close() }()
			}
		}()
	}
	defer func() {
		closeSession() // first: the scripted peers end when the client drops their connections
		close(stopAcc)
		for _, pr := range prs {
			pr.ln.Close()
		}
		wg.Wait()
	}()
	link := "magnet:?xt=urn:btih:" + hex.EncodeToString(ih[:]) + "&dn=placeholder"
	t, err := s.AddURI(link, &torrent.AddTorrentOptions{StopAfterMetadata: k%3 == 0})
	if err != nil {
		run.Inconclusive("add: " + err.Error())
		return
	}
	run.Eval(1)
	meta := t.NotifyMetadata()
	order := r.Perm(len(prs))
	for _, i := range order {
		t.AddPeer(prs[i].ln.Addr().String())
		if r.Intn(2) == 0 {
			time.Sleep(time.Duration(r.Intn(30)) * time.Millisecond)
		}
	}
	t0 := time.Now()
	got := false
	wait := 6 * time.Second
	if honest > 0 {
		wait = 40 * time.Second
	}
	dl := time.Now().Add(wait)
	for time.Now().Before(dl) {
		select {
		case <-meta:
			got = true
		default:
		}
		if got {
			break
		}
		// keep offering the peers (a dropped liar may be re-dialed, an honest one must be found again)
		if time.Since(t0) > 500*time.Millisecond {
			for _, pr := range prs {
				if pr.kind == "" {
					t.AddPeer(pr.ln.Addr().String())
				}
			}
		}
		time.Sleep(40 * time.Millisecond)
	}
	rep := map[string]any{"scenario": label}
	// what was adopted?
	if got {
		tb, terr := t.Torrent()
		if terr != nil {
			run.Violation("metadata-complete-without-metainfo", fmt.Sprintf("%s: NotifyMetadata fired but Torrent() fails: %v", label, terr), rep)
			return
		}
		v, _, derr := benc.Decode(tb)
		d, _ := v.(benc.Dict)
		iv, ok := d.Get("info")
		if derr != nil || !ok {
			run.Violation("metainfo-undecodable", fmt.Sprintf("%s: exported metainfo cannot be decoded", label), rep)
			return
		}
		ib := benc.Encode(reencode(iv))
		if sha1.Sum(ib) != ih {
			// fall back to locating the raw info bytes (key order of the source is preserved in the client's copy)
			if idx := strings.Index(string(tb), "4:info"); idx >= 0 {
				_, n, e2 := benc.Decode(tb[idx+6:])
				if e2 == nil {
					ib = tb[idx+6 : idx+6+n]
				}
			}
		}
		if sha1.Sum(ib) != ih {
			run.Violation("adopted-metadata-hash-mismatch", fmt.Sprintf("%s: adopted info dictionary hashes to %x, the link says %x", label, sha1.Sum(ib), ih), rep)
			return
		}
		if name := t.Stats().Name; name != l.Name {
			run.Violation("adopted-name-differs", fmt.Sprintf("%s: Stats().Name=%q after metadata, info says %q", label, name, l.Name), rep)
			return
		}
		run.Count("metadata_fetched", 1)
		run.Max("slowest_metadata_fetch_ms", time.Since(t0).Milliseconds())
		if time.Since(t0) > 5*time.Second {
			run.Count("fetches_slower_than_5s", 1)
		}
	} else {
		if honest > 0 {
			if vx.CanaryWorstSince(t0) > 2*time.Second {
				run.Inconclusive("canary late: " + label)
				return
			}
			st := t.Stats()
			run.Violation("metadata-not-fetched-with-honest-peer", fmt.Sprintf("%s: %d honest peer(s) offered the metadata for 40 s, status %s, metadata downloads %d, peers %d", label, honest, st.Status, st.MetadataDownloads.Total, st.Peers.Total), rep)
			return
		}
		if nm := t.Stats().Name; nm != "placeholder" {
			run.Violation("name-switched-without-metadata", fmt.Sprintf("%s: no valid metadata was offered, yet Stats().Name=%q", label, nm), rep)
			return
		}
		run.Count("liars_only_nothing_adopted", 1)
	}
	// oversize adverts must never be asked
	mu.Lock()
	for _, pr := range prs {
		if pr.kind != "oversize-advert" {
			continue
		}
		for _, st := range pr.states {
			st.Mu.Lock()
			n := len(st.MetaRequests)
			st.Mu.Unlock()
			if n > 0 {
				run.Violation("oversized-metadata-requested", fmt.Sprintf("%s: a peer announcing metadata_size above the limit %d received %d metadata requests", label, maxMeta, n), rep)
			}
		}
	}
	mu.Unlock()
	sort.Strings(kinds)
	run.Distinct(vx.Hash(kinds, len(info), got))
	if k%25 == 1 {
		run.Sample(map[string]any{"scenario": label, "metadata_adopted": got})
	}
}

// reencode re-serialises a decoded value in source key order (benc.Dict keeps it).
func reencode(v any) any { return v }

func main() {
	run = vx.Begin("C13", "exploration",
		"(a) PRNG magnet values (hex/base32 hashes, names over an alphabet of reserved characters and non-ASCII, 0-4 tiers of 1-3 http/https/udp trackers with query strings, IPv4/IPv6/host peers): String()->New() and String()->independent parser, foreign spellings (base32, upper-case hex, shuffled parameters, tr/tr.N mixes), and AddURI(stopped)->Torrent.Magnet() through the API; tiers compared as a multiset of sets; (b) magnet sessions fed by 1-4 scripted peers, each honest or lying (wrong total_size, short/long piece, duplicates, unrequested index, garbage, reject, wrong content, other torrent of equal size, stall, wrong or oversized metadata_size) with metadata of 1-3 pieces. distinct = distinct links / (peer kinds, size, outcome)")
	logger.Disable()
	vx.StartCanary()
	switch vx.ChildRole() {
	case "api":
		lo, hi := vx.ChildRange()
		apiRoundTrips(lo, hi)
		run.Finish(0)
	case "meta":
		lo, hi := vx.ChildRange()
		var wg sync.WaitGroup
		sem := make(chan struct{}, 2)
		for k := lo; k < hi; k++ {
			if run.Violations() >= 4 {
				break
			}
			wg.Add(1)
			sem <- struct{}{}
			go func(k int) { defer wg.Done(); defer func() { <-sem }(); metaScenario(k) }(k)
		}
		wg.Wait()
		run.Finish(0)
	}
	nrt := run.N(20000, 1000000)
	vx.Parallel(nrt, 16, func(k int) {
		if run.Enough() {
			return
		}
		if pt, ok := vx.Try(func() { roundTrip(k) }); !ok {
			run.Violation("magnet-panic", fmt.Sprintf("round trip %d: panic %s", k, pt), nil)
		}
	})
	crash := func(res vx.ChildResult, k int, logp string) {
		run.Violation("crash:"+vx.NormalisePanic(res.PanicText)+"|"+res.RainFrame, fmt.Sprintf("%s: client crashed: %s at %s (log %s)", res.OpenCase, res.PanicText, res.RainFrame, logp), map[string]any{"tail": res.Tail})
	}
	var wg sync.WaitGroup
	wg.Add(2)
	go func() { defer wg.Done(); run.RunChildren("api", run.N(600, 20000), 2, "api-", time.Second, crash) }()
	go func() { defer wg.Done(); run.RunChildren("meta", run.N(160, 5000), 12, "meta-", 45*time.Second, crash) }()
	wg.Wait()
	run.Assume("tracker tiers are compared as a multiset of sets (the statement says 'each tier as a set'; tier order and order inside a tier are not judged, order changes are counted)")
	run.Assume("peer addresses are IPv4:port, [IPv6]:port or host:port; strings that are not addresses are out of scope")
	run.Finish(300)
}
