// Package gen generates torrent layouts, their ground-truth content and their
// metainfo with an independent bencode writer.
package gen

import (
	"crypto/sha1"
	"fmt"
	"math/rand"
	"strings"

	"github.com/cenkalti/rain/v2/verifx/benc"
)

type FileSpec struct {
	Path   []string
	Length int64
	Pad    bool
}

// Layout describes one torrent as the generator intends it.
type Layout struct {
	Name     string
	PieceLen uint32
	Files    []FileSpec // len==1 && Single => single-file mode
	Single   bool
	Private  any // nil => key absent; else value encoded as given
	Seed     int64
}

func (l *Layout) Total() int64 {
	var n int64
	for _, f := range l.Files {
		n += f.Length
	}
	return n
}

func (l *Layout) NumPieces() int {
	t := l.Total()
	return int((t + int64(l.PieceLen) - 1) / int64(l.PieceLen))
}

func (l *Layout) String() string {
	var sb strings.Builder
	fmt.Fprintf(&sb, "PL=%d files=[", l.PieceLen)
	for i, f := range l.Files {
		if i > 0 {
			sb.WriteByte(' ')
		}
		if f.Pad {
			fmt.Fprintf(&sb, "pad:%d", f.Length)
		} else {
			fmt.Fprintf(&sb, "%d", f.Length)
		}
	}
	sb.WriteString("]")
	if l.Single {
		sb.WriteString(" single")
	}
	return sb.String()
}

// Truth returns the flat concatenation of all files (padding as zeros). Every
// piece gets distinct pseudo-random content so a read identifies what was written.
func (l *Layout) Truth() []byte {
	t := make([]byte, l.Total())
	r := rand.New(rand.NewSource(l.Seed ^ 0x5eed))
	r.Read(t)
	// never-zero content outside padding, so "padding reads as zero" is discriminating
	for i := range t {
		if t[i] == 0 {
			t[i] = 0xA5
		}
	}
	var off int64
	for _, f := range l.Files {
		if f.Pad {
			for i := off; i < off+f.Length; i++ {
				t[i] = 0
			}
		}
		off += f.Length
	}
	return t
}

// FileRange locates file i inside the flat array.
func (l *Layout) FileRange(i int) (off, end int64) {
	for j := 0; j < i; j++ {
		off += l.Files[j].Length
	}
	return off, off + l.Files[i].Length
}

// JoinedPath is the storage name rain derives for file i (name/path...).
func (l *Layout) JoinedPath(i int) string {
	if l.Single {
		return l.Name
	}
	return l.Name + "/" + strings.Join(l.Files[i].Path, "/")
}

// PieceHashes over truth.
func (l *Layout) PieceHashes(truth []byte) []byte {
	var out []byte
	pl := int64(l.PieceLen)
	for off := int64(0); off < int64(len(truth)); off += pl {
		end := off + pl
		if end > int64(len(truth)) {
			end = int64(len(truth))
		}
		h := sha1.Sum(truth[off:end])
		out = append(out, h[:]...)
	}
	return out
}

// InfoDict builds the info dictionary (sorted keys).
func (l *Layout) InfoDict(truth []byte) benc.Dict {
	d := benc.Dict{
		{K: "name", V: l.Name},
		{K: "piece length", V: int64(l.PieceLen)},
		{K: "pieces", V: l.PieceHashes(truth)},
	}
	if l.Single {
		d = append(d, benc.KV{K: "length", V: l.Files[0].Length})
	} else {
		var fl benc.List
		for _, f := range l.Files {
			fd := benc.Dict{{K: "length", V: f.Length}, {K: "path", V: f.Path}}
			if f.Pad {
				fd = append(fd, benc.KV{K: "attr", V: "p"})
			}
			fl = append(fl, fd.Sorted())
		}
		d = append(d, benc.KV{K: "files", V: fl})
	}
	if l.Private != nil {
		d = append(d, benc.KV{K: "private", V: l.Private})
	}
	return d.Sorted()
}

func (l *Layout) InfoBytes(truth []byte) []byte { return benc.Encode(l.InfoDict(truth)) }

// TorrentBytes wraps info into a .torrent.
func TorrentBytes(info []byte, trackers [][]string, urlList []string) []byte {
	d := benc.Dict{{K: "info", V: benc.Raw(info)}}
	if len(trackers) > 0 {
		d = append(d, benc.KV{K: "announce", V: trackers[0][0]})
		var al benc.List
		for _, tier := range trackers {
			al = append(al, tier)
		}
		d = append(d, benc.KV{K: "announce-list", V: al})
	}
	if len(urlList) > 0 {
		d = append(d, benc.KV{K: "url-list", V: urlList})
	}
	return benc.Encode(d.Sorted())
}

func InfoHash(info []byte) [20]byte { return sha1.Sum(info) }

// Boundary file lengths for piece length pl.
func BoundaryLens(pl int64) []int64 {
	m := map[int64]bool{}
	for _, v := range []int64{0, 1, 16383, 16384, 16385, pl - 1, pl, pl + 1, 2*pl + 7} {
		if v >= 0 {
			m[v] = true
		}
	}
	var out []int64
	for _, v := range []int64{0, 1, 16383, 16384, 16385, pl - 1, pl, pl + 1, 2*pl + 7} {
		if v >= 0 && m[v] {
			out = append(out, v)
			m[v] = false
		}
	}
	return out
}

var PieceLens = []uint32{16384, 32768, 49152, 20000, 1, 65536}

// RandomLayout draws a layout: 1..maxFiles files, boundary-biased lengths,
// padding flags, odd piece lengths. Total is kept > 0 and <= maxTotal.
func RandomLayout(r *rand.Rand, maxFiles int, maxTotal int64) *Layout {
	for {
		l := &Layout{Seed: r.Int63()}
		switch r.Intn(8) {
		case 0:
			l.PieceLen = 16384
		case 1:
			l.PieceLen = 32768
		case 2:
			l.PieceLen = 49152
		case 3:
			l.PieceLen = 20000
		case 4:
			l.PieceLen = uint32(1 + r.Intn(70000))
		case 5:
			l.PieceLen = 65536
		case 6:
			l.PieceLen = uint32(16384 * (1 + r.Intn(6)))
		default:
			l.PieceLen = uint32(1000 + r.Intn(40000))
		}
		pl := int64(l.PieceLen)
		n := 1 + r.Intn(maxFiles)
		l.Name = fmt.Sprintf("t%x", r.Uint32())
		if n == 1 && r.Intn(2) == 0 {
			l.Single = true
		}
		b := BoundaryLens(pl)
		for i := 0; i < n; i++ {
			var ln int64
			switch r.Intn(4) {
			case 0:
				ln = b[r.Intn(len(b))]
			case 1:
				ln = r.Int63n(3*pl + 1)
			case 2:
				ln = r.Int63n(40000)
			default:
				k := r.Int63n(4)
				ln = k*pl + r.Int63n(3) - 1
				if ln < 0 {
					ln = 0
				}
			}
			f := FileSpec{Path: []string{fmt.Sprintf("d%d", i%3), fmt.Sprintf("f%d.bin", i)}, Length: ln}
			if !l.Single && r.Intn(4) == 0 {
				f.Pad = true
				f.Path = []string{".pad", fmt.Sprintf("%d", ln)}
				if r.Intn(2) == 0 && ln > 0 {
					// make the file before it end so that padding aligns to a piece boundary
					tot := int64(0)
					for _, g := range l.Files {
						tot += g.Length
					}
					if rem := tot % pl; rem != 0 {
						f.Length = pl - rem
						f.Path = []string{".pad", fmt.Sprintf("%d", f.Length)}
					}
				}
			}
			l.Files = append(l.Files, f)
		}
		if l.Single {
			l.Files[0].Pad = false
			l.Files[0].Path = nil
		}
		t := l.Total()
		if t == 0 || t > maxTotal {
			continue
		}
		if int64(l.NumPieces()) > 3000 {
			continue
		}
		return l
	}
}
