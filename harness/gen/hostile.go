package gen

import (
	"crypto/sha1"
	"fmt"
	"math/rand"
	"strings"

	"github.com/cenkalti/rain/v2/verifx/benc"
)

// HostileInfo is a generated info dictionary together with what the generator knows about it.
type HostileInfo struct {
	Bytes []byte
	Kind  string
	// Declared values (as the generator wrote them; may be hostile)
	PieceLen int64
	Lengths  []int64 // file lengths (single-file: one entry)
	NPieces  int     // number of 20-byte hashes written
	Names    [][]string
	Name     string
}

var hostileInts = []int64{0, 1, -1, 16384, 1 << 31, 1<<31 - 1, 1 << 32, 1<<32 - 1, 1<<63 - 1, -(1 << 62), 2, 20000}

// HostileNumeric draws an info dictionary whose numeric fields are adversarial:
// negative / zero / overflowing lengths, lengths that sum right with a negative
// member, piece length 0 / 1 / 2^32-1 / 2^32, piece strings of every length mod 20,
// wrong types, duplicate and unsorted keys, deep nesting, truncation.
func HostileNumeric(r *rand.Rand) HostileInfo {
	h := HostileInfo{Name: fmt.Sprintf("h%x", r.Uint32())}
	kind := r.Intn(16)
	pl := int64([]int64{16384, 32768, 1, 20000, 1 << 20}[r.Intn(5)])
	nfiles := 1 + r.Intn(4)
	var lens []int64
	for i := 0; i < nfiles; i++ {
		lens = append(lens, int64(r.Intn(100000)))
	}
	sum := func() int64 {
		var s int64
		for _, l := range lens {
			s += l
		}
		return s
	}
	if sum() == 0 {
		lens[0] = 1
	}
	np := int((sum() + pl - 1) / pl)
	single := nfiles == 1 && r.Intn(2) == 0
	extra := benc.Dict{}
	switch kind {
	case 0:
		h.Kind = "valid"
	case 1:
		h.Kind = "negative-member-sum-consistent"
		if len(lens) < 2 {
			lens = append(lens, 50000)
		}
		neg := int64(1 + r.Intn(40000))
		lens[0] += neg
		lens[1] = -neg + lens[1]
		if lens[1] >= 0 {
			lens[1] = -neg
			lens[0] = sum() - lens[1] // keep the total
		}
		single = false
		np = int((sum() + pl - 1) / pl)
		if sum() <= 0 {
			lens[0] += 100000
			np = int((sum() + pl - 1) / pl)
		}
	case 2:
		h.Kind = "hostile-length"
		lens[r.Intn(len(lens))] = hostileInts[r.Intn(len(hostileInts))]
	case 3:
		h.Kind = "hostile-piece-length"
		pl = hostileInts[r.Intn(len(hostileInts))]
	case 4:
		h.Kind = "piece-count-mismatch"
		np += []int{-1, 1, 2, 100, -np}[r.Intn(5)]
		if np < 0 {
			np = 0
		}
	case 5:
		h.Kind = "pieces-length-not-multiple-of-20"
	case 6:
		h.Kind = "huge-lengths-consistent"
		pl = 1 << 30
		lens = []int64{(1 << 40) + int64(r.Intn(1000)), 1 << 41}
		single = false
		np = int((sum() + pl - 1) / pl)
	case 7:
		h.Kind = "overflowing-sum"
		lens = []int64{1<<63 - 1, 1<<63 - 1, 2 + int64(r.Intn(50000))}
		single = false
	case 8:
		h.Kind = "too-many-pieces"
		pl = 1
		lens = []int64{int64(70000 + r.Intn(100000))}
		np = int(lens[0])
		single = true
	case 9:
		h.Kind = "wrong-types"
	case 10:
		h.Kind = "duplicate-and-unsorted-keys"
	case 11:
		h.Kind = "zero-files"
		lens = nil
		single = false
	case 12:
		h.Kind = "deep-nesting"
	case 13:
		h.Kind = "all-zero-lengths"
		for i := range lens {
			lens[i] = 0
		}
		np = 1
	case 14:
		h.Kind = "negative-single-length"
		lens = []int64{-int64(1 + r.Intn(100000))}
		single = true
		np = 1
	default:
		h.Kind = "valid-with-extras"
		extra = append(extra, benc.KV{K: "private", V: []any{int64(1), "1", benc.List{}, int64(-1)}[r.Intn(4)]}, benc.KV{K: "source", V: "x"}, benc.KV{K: "meta version", V: int64(2)})
	}
	if np > 200000 {
		np = 200000
	}
	pieces := make([]byte, np*20)
	r.Read(pieces)
	if h.Kind == "pieces-length-not-multiple-of-20" {
		pieces = append(pieces, make([]byte, 1+r.Intn(19))...)
	}
	d := benc.Dict{{K: "name", V: h.Name}, {K: "piece length", V: pl}, {K: "pieces", V: pieces}}
	if single && len(lens) == 1 {
		d = append(d, benc.KV{K: "length", V: lens[0]})
		h.Names = [][]string{nil}
	} else {
		var fl benc.List
		for i, ln := range lens {
			p := []string{fmt.Sprintf("d%d", i%2), fmt.Sprintf("f%d", i)}
			h.Names = append(h.Names, p)
			fl = append(fl, benc.Dict{{K: "length", V: ln}, {K: "path", V: p}})
		}
		d = append(d, benc.KV{K: "files", V: fl})
	}
	d = append(d, extra...)
	d = d.Sorted()
	switch h.Kind {
	case "wrong-types":
		k := []string{"piece length", "pieces", "name", "files", "length"}[r.Intn(5)]
		d = d.Set(k, []any{"str", int64(5), benc.List{int64(1)}, benc.Dict{{K: "a", V: "b"}}}[r.Intn(4)])
	case "duplicate-and-unsorted-keys":
		d = append(d, benc.KV{K: "piece length", V: int64(0)}, benc.KV{K: "name", V: "../dup"}, benc.KV{K: "a", V: int64(1)})
	case "deep-nesting":
		n := 100 + r.Intn(20000)
		d = d.Set("extra", benc.Raw(strings.Repeat("l", n)+strings.Repeat("e", n)))
	}
	h.Bytes = benc.Encode(d)
	h.PieceLen, h.Lengths, h.NPieces = pl, lens, np
	return h
}

// MutateBytes flips / truncates / splices a valid encoding.
func MutateBytes(r *rand.Rand, b []byte) []byte {
	out := append([]byte(nil), b...)
	switch r.Intn(4) {
	case 0:
		for i := 1 + r.Intn(4); i > 0 && len(out) > 0; i-- {
			out[r.Intn(len(out))] = byte(r.Intn(256))
		}
	case 1:
		if len(out) > 1 {
			out = out[:r.Intn(len(out))]
		}
	case 2:
		if len(out) > 10 {
			i := r.Intn(len(out) - 5)
			out = append(out[:i], append([]byte(fmt.Sprintf("i%de", hostileInts[r.Intn(len(hostileInts))])), out[i+3:]...)...)
		}
	default:
		out = append(out, out[:r.Intn(len(out)+1)]...)
	}
	return out
}

// hostile path components
var HostileComponents = []string{"..", ".", "", "/", "a/../..", " .. ", ".. ", " ..", "/abs", "/etc/passwd", "a\x00b", "a\\b", "..\\x", strings.Repeat("n", 300), strings.Repeat("é", 200), "\xff\xfe", "\xff..", ".\xff.", "..\xff", "a/b", "a//b", "./x", "x/.", "~", "-", "CON", "a\nb", "..\x00", "%2e%2e", "‮", "\t..", "...", "....", "a", "b", "A"}

type HostilePaths struct {
	Bytes   []byte
	Name    string
	NameU8  string
	Files   [][]string // path components per file (nil for single-file)
	FilesU8 [][]string
	Single  bool
	Lengths []int64
	Truth   []byte
	Pad     []bool
}

func comp(r *rand.Rand) string {
	if r.Intn(3) == 0 {
		// short strings over a tiny alphabet: every combination up to length 3 occurs quickly
		al := []string{".", "/", "a", " ", "\xff"}
		n := r.Intn(4)
		var sb strings.Builder
		for i := 0; i < n; i++ {
			sb.WriteString(al[r.Intn(len(al))])
		}
		return sb.String()
	}
	return HostileComponents[r.Intn(len(HostileComponents))]
}

// HostileNames draws a numerically valid info dictionary whose name and path components are adversarial.
func HostileNames(r *rand.Rand) HostilePaths {
	h := HostilePaths{}
	h.Name = comp(r)
	if r.Intn(3) == 0 {
		h.Name = fmt.Sprintf("t%x", r.Uint32())
	}
	nf := 1 + r.Intn(4)
	h.Single = nf == 1 && r.Intn(2) == 0
	pl := int64(16384)
	var total int64
	for i := 0; i < nf; i++ {
		ln := int64(1 + r.Intn(20000))
		h.Lengths = append(h.Lengths, ln)
		total += ln
		h.Pad = append(h.Pad, !h.Single && r.Intn(6) == 0)
	}
	h.Truth = make([]byte, total)
	r.Read(h.Truth)
	var off int64
	for i, ln := range h.Lengths {
		if h.Pad[i] {
			for b := off; b < off+ln; b++ {
				h.Truth[b] = 0
			}
		}
		off += ln
	}
	var pieces []byte
	for o := int64(0); o < total; o += pl {
		e := o + pl
		if e > total {
			e = total
		}
		s := sha1.Sum(h.Truth[o:e])
		pieces = append(pieces, s[:]...)
	}
	d := benc.Dict{{K: "name", V: h.Name}, {K: "piece length", V: pl}, {K: "pieces", V: pieces}}
	if r.Intn(4) == 0 {
		h.NameU8 = comp(r)
		d = append(d, benc.KV{K: "name.utf-8", V: h.NameU8})
	}
	if h.Single {
		d = append(d, benc.KV{K: "length", V: h.Lengths[0]})
	} else {
		var fl benc.List
		for i, ln := range h.Lengths {
			nc := 1 + r.Intn(3)
			var p []string
			for j := 0; j < nc; j++ {
				p = append(p, comp(r))
			}
			if r.Intn(3) == 0 {
				p[len(p)-1] = fmt.Sprintf("f%d", r.Intn(3)) // provoke duplicates after cleaning
			}
			h.Files = append(h.Files, p)
			fd := benc.Dict{{K: "length", V: ln}, {K: "path", V: p}}
			if h.Pad[i] {
				fd = append(fd, benc.KV{K: "attr", V: "p"})
			}
			var u8 []string
			if r.Intn(5) == 0 {
				for j := 0; j < 1+r.Intn(2); j++ {
					u8 = append(u8, comp(r))
				}
				fd = append(fd, benc.KV{K: "path.utf-8", V: u8})
			}
			h.FilesU8 = append(h.FilesU8, u8)
			fl = append(fl, fd.Sorted())
		}
		d = append(d, benc.KV{K: "files", V: fl})
	}
	h.Bytes = benc.Encode(d.Sorted())
	return h
}
