// Package refmse is an independent implementation of Message Stream Encryption
// (the Vuze/Azureus MSE/PE specification), with caller-chosen pad lengths so
// that the client's handling of every pad length can be enumerated.
package refmse

import (
	"bytes"
	"crypto/rc4"
	"crypto/sha1"
	"encoding/binary"
	"errors"
	"fmt"
	"io"
	"math/big"
	"math/rand"
)

const (
	Plain = 1
	RC4   = 2
)

var prime, _ = new(big.Int).SetString("FFFFFFFFFFFFFFFFC90FDAA22168C234C4C6628B80DC1CD129024E088A67CC74020BBEA63B139B22514A08798E3404DDEF9519B3CD3A431B302B0A6DF25F14374FE1356D6D51C245E485B576625E7EC6F44C42E9A63A36210000000000090563", 16)
var two = big.NewInt(2)

func pad96(x *big.Int) []byte {
	b := x.Bytes()
	if len(b) >= 96 {
		return b[len(b)-96:]
	}
	o := make([]byte, 96)
	copy(o[96-len(b):], b)
	return o
}

func h(parts ...[]byte) []byte {
	s := sha1.New()
	for _, p := range parts {
		s.Write(p)
	}
	return s.Sum(nil)
}

func xor(a, b []byte) []byte {
	o := make([]byte, len(a))
	for i := range a {
		o[i] = a[i] ^ b[i]
	}
	return o
}

func newRC4(key []byte) *rc4.Cipher {
	c, _ := rc4.NewCipher(key)
	var d [1024]byte
	c.XORKeyStream(d[:], d[:])
	return c
}

// Conn is the stream after a completed handshake.
type Conn struct {
	rw       io.ReadWriter
	enc, dec *rc4.Cipher // nil when plaintext was selected
	pending  []byte      // decrypted initial payload (responder side)
	Selected uint32
}

func (c *Conn) Write(p []byte) (int, error) {
	if c.enc == nil {
		return c.rw.Write(p)
	}
	o := make([]byte, len(p))
	c.enc.XORKeyStream(o, p)
	return c.rw.Write(o)
}

func (c *Conn) Read(p []byte) (int, error) {
	if len(c.pending) > 0 {
		n := copy(p, c.pending)
		c.pending = c.pending[n:]
		return n, nil
	}
	n, err := c.rw.Read(p)
	if c.dec != nil && n > 0 {
		c.dec.XORKeyStream(p[:n], p[:n])
	}
	return n, err
}

// Opts of one reference handshake.
type Opts struct {
	R          *rand.Rand
	Pad1       int // PadA (initiator) or PadB (responder)
	Pad2       int // PadC (initiator) or PadD (responder)
	ZeroPad    bool
	Provide    uint32                       // initiator
	IA         []byte                       // initiator
	SKey       []byte                       // initiator
	SKeys      [][]byte                     // responder: keys it knows
	Select     func(provided uint32) uint32 // responder
	CorruptVC  bool                         // initiator: send a wrong VC
	WrongReq2  bool                         // initiator: hash of another key
	OneWrite   bool                         // write each step with a single Write
}

func (o *Opts) padBytes(n int) []byte {
	b := make([]byte, n)
	if !o.ZeroPad {
		o.R.Read(b)
	}
	return b
}

func keyPair(r *rand.Rand) (x, y *big.Int) {
	b := make([]byte, 20)
	r.Read(b)
	x = new(big.Int).SetBytes(b)
	y = new(big.Int).Exp(two, x, prime)
	return
}

// scan reads until the last len(pat) bytes equal pat, reading at most max bytes.
func scan(r io.Reader, pat []byte, max int) error {
	var win []byte
	one := make([]byte, 1)
	for i := 0; i < max; i++ {
		if _, err := io.ReadFull(r, one); err != nil {
			return err
		}
		win = append(win, one[0])
		if len(win) > len(pat) {
			win = win[1:]
		}
		if len(win) == len(pat) && bytes.Equal(win, pat) {
			return nil
		}
	}
	return errors.New("refmse: sync pattern not found")
}

var ErrRefused = errors.New("refmse: handshake refused")

// Initiate runs the initiator (A) side.
func Initiate(rw io.ReadWriter, o Opts) (*Conn, error) {
	xa, ya := keyPair(o.R)
	if _, err := rw.Write(append(pad96(ya), o.padBytes(o.Pad1)...)); err != nil {
		return nil, err
	}
	yb := make([]byte, 96)
	if _, err := io.ReadFull(rw, yb); err != nil {
		return nil, err
	}
	s := pad96(new(big.Int).Exp(new(big.Int).SetBytes(yb), xa, prime))
	enc := newRC4(h([]byte("keyA"), s, o.SKey))
	dec := newRC4(h([]byte("keyB"), s, o.SKey))
	req2key := o.SKey
	if o.WrongReq2 {
		req2key = append([]byte("x"), o.SKey...)
	}
	var step3 []byte
	step3 = append(step3, h([]byte("req1"), s)...)
	step3 = append(step3, xor(h([]byte("req2"), req2key), h([]byte("req3"), s))...)
	var plain []byte
	vc := make([]byte, 8)
	if o.CorruptVC {
		vc[3] = 1
	}
	plain = append(plain, vc...)
	plain = binary.BigEndian.AppendUint32(plain, o.Provide)
	plain = binary.BigEndian.AppendUint16(plain, uint16(o.Pad2))
	plain = append(plain, make([]byte, o.Pad2)...)
	plain = binary.BigEndian.AppendUint16(plain, uint16(len(o.IA)))
	plain = append(plain, o.IA...)
	ct := make([]byte, len(plain))
	enc.XORKeyStream(ct, plain)
	step3 = append(step3, ct...)
	if _, err := rw.Write(step3); err != nil {
		return nil, err
	}
	// step 4: skip PadB by scanning for ENCRYPT(VC)
	encVC := make([]byte, 8)
	dec.XORKeyStream(encVC, make([]byte, 8))
	if err := scan(rw, encVC, 512+8); err != nil {
		return nil, err
	}
	hdr := make([]byte, 6)
	if _, err := io.ReadFull(rw, hdr); err != nil {
		return nil, err
	}
	dec.XORKeyStream(hdr, hdr)
	sel := binary.BigEndian.Uint32(hdr)
	padD := int(binary.BigEndian.Uint16(hdr[4:]))
	if sel == 0 || sel&(sel-1) != 0 || sel&o.Provide == 0 {
		return nil, fmt.Errorf("refmse: responder selected %#x from offer %#x", sel, o.Provide)
	}
	pd := make([]byte, padD)
	if _, err := io.ReadFull(rw, pd); err != nil {
		return nil, err
	}
	dec.XORKeyStream(pd, pd)
	c := &Conn{rw: rw, Selected: sel}
	if sel == RC4 {
		c.enc, c.dec = enc, dec
	}
	return c, nil
}

// Respond runs the responder (B) side. Returns the initial payload it received.
func Respond(rw io.ReadWriter, o Opts) (*Conn, []byte, error) {
	ya := make([]byte, 96)
	if _, err := io.ReadFull(rw, ya); err != nil {
		return nil, nil, err
	}
	xb, yb := keyPair(o.R)
	if _, err := rw.Write(append(pad96(yb), o.padBytes(o.Pad1)...)); err != nil {
		return nil, nil, err
	}
	s := pad96(new(big.Int).Exp(new(big.Int).SetBytes(ya), xb, prime))
	if err := scan(rw, h([]byte("req1"), s), 512+20); err != nil {
		return nil, nil, err
	}
	x := make([]byte, 20)
	if _, err := io.ReadFull(rw, x); err != nil {
		return nil, nil, err
	}
	want := xor(x, h([]byte("req3"), s))
	var skey []byte
	for _, k := range o.SKeys {
		if bytes.Equal(h([]byte("req2"), k), want) {
			skey = k
		}
	}
	if skey == nil {
		return nil, nil, ErrRefused
	}
	dec := newRC4(h([]byte("keyA"), s, skey))
	enc := newRC4(h([]byte("keyB"), s, skey))
	hdr := make([]byte, 14)
	if _, err := io.ReadFull(rw, hdr); err != nil {
		return nil, nil, err
	}
	dec.XORKeyStream(hdr, hdr)
	if !bytes.Equal(hdr[:8], make([]byte, 8)) {
		return nil, nil, errors.New("refmse: bad VC")
	}
	provide := binary.BigEndian.Uint32(hdr[8:])
	padC := int(binary.BigEndian.Uint16(hdr[12:]))
	if padC > 512 {
		return nil, nil, errors.New("refmse: PadC too long")
	}
	rest := make([]byte, padC+2)
	if _, err := io.ReadFull(rw, rest); err != nil {
		return nil, nil, err
	}
	dec.XORKeyStream(rest, rest)
	iaLen := int(binary.BigEndian.Uint16(rest[padC:]))
	ia := make([]byte, iaLen)
	if _, err := io.ReadFull(rw, ia); err != nil {
		return nil, nil, err
	}
	dec.XORKeyStream(ia, ia)
	sel := o.Select(provide)
	if sel == 0 {
		return nil, nil, ErrRefused
	}
	var plain []byte
	plain = append(plain, make([]byte, 8)...)
	plain = binary.BigEndian.AppendUint32(plain, sel)
	plain = binary.BigEndian.AppendUint16(plain, uint16(o.Pad2))
	plain = append(plain, make([]byte, o.Pad2)...)
	ct := make([]byte, len(plain))
	enc.XORKeyStream(ct, plain)
	if _, err := rw.Write(ct); err != nil {
		return nil, nil, err
	}
	c := &Conn{rw: rw, Selected: sel}
	if sel == RC4 {
		c.enc, c.dec = enc, dec
	}
	return c, ia, nil
}
