// Package refpeer provides scripted remote peers built on the independent
// codec (refwire) and MSE (refmse). Every frame received or sent is logged with
// a global sequence number. A peer is both a workload generator and a recorder.
package refpeer

import (
	"errors"
	"fmt"
	"io"
	"math/rand"
	"net"
	"sync"
	"sync/atomic"
	"time"

	"github.com/cenkalti/rain/v2/verifx/evlog"
	"github.com/cenkalti/rain/v2/verifx/refmse"
	"github.com/cenkalti/rain/v2/verifx/refwire"
)

// HSOpts describes how the peer shakes hands.
type HSOpts struct {
	InfoHash [20]byte
	PeerID   [20]byte
	Fast     bool
	Ext      bool
	DHT      bool
	// Crypto when dialing: "plain", "rc4" (offer RC4 only), "both" (offer both), "mse-plain" (offer plaintext only).
	// When accepting: "auto" (plaintext or MSE, prefer RC4), "auto-plain" (prefer plaintext selection), "plain-only".
	Crypto string
	Seed   int64
}

// Conn is an established peer-wire connection as seen by the scripted peer.
type Conn struct {
	Name      string
	LocalIP   string
	Remote    refwire.HS
	Encrypted bool // RC4 in use
	LocalFast bool // this side set the fast bit
	ViaMSE    bool
	raw       net.Conn
	rw        io.ReadWriter
	wmu       sync.Mutex
	Log       *evlog.Log
	closed    atomic.Bool
	BytesIn   atomic.Int64
	BytesOut  atomic.Int64
	Frames    atomic.Int64
	BadFrames atomic.Int64 // frames that the strict reference decoder refused
}

// FastOn: the fast extension is in use only when both sides set the bit (BEP 6).
func (c *Conn) FastOn() bool { return c.LocalFast && c.Remote.Fast() }

var ErrHandshake = errors.New("refpeer: handshake failed")

func reserved(o HSOpts) [8]byte { return refwire.ReservedBits(o.Fast, o.Ext, o.DHT) }

// Dial connects from localIP (own loopback address) to target and shakes hands.
func Dial(name, localIP, target string, o HSOpts, log *evlog.Log) (*Conn, error) {
	d := net.Dialer{Timeout: 5 * time.Second}
	if localIP != "" {
		d.LocalAddr = &net.TCPAddr{IP: net.ParseIP(localIP)}
	}
	raw, err := d.Dial("tcp4", target)
	if err != nil {
		return nil, err
	}
	c := &Conn{Name: name, LocalIP: localIP, raw: raw, rw: raw, Log: log, LocalFast: o.Fast}
	raw.SetDeadline(time.Now().Add(15 * time.Second))
	hs := refwire.Handshake(reserved(o), o.InfoHash, o.PeerID)
	switch o.Crypto {
	case "", "plain":
		if _, err := raw.Write(hs); err != nil {
			raw.Close()
			return nil, err
		}
	default:
		prov := map[string]uint32{"rc4": 2, "both": 3, "mse-plain": 1}[o.Crypto]
		r := rand.New(rand.NewSource(o.Seed))
		mc, err := refmse.Initiate(raw, refmse.Opts{R: r, Pad1: r.Intn(512), Pad2: r.Intn(512), Provide: prov, IA: hs, SKey: o.InfoHash[:]})
		if err != nil {
			raw.Close()
			return nil, fmt.Errorf("%w: %v", ErrHandshake, err)
		}
		c.rw = mc
		c.ViaMSE = true
		c.Encrypted = mc.Selected == refmse.RC4
	}
	h, err := refwire.ReadHandshake(c.rw)
	if err != nil {
		raw.Close()
		return nil, fmt.Errorf("%w: %v", ErrHandshake, err)
	}
	if h.InfoHash != o.InfoHash {
		raw.Close()
		return nil, fmt.Errorf("%w: foreign info hash", ErrHandshake)
	}
	c.Remote = h
	raw.SetDeadline(time.Time{})
	log.Add(name, "handshake", 0, 0, 0, string(h.PeerID[:]), nil)
	return c, nil
}

// Listener accepts connections from the client under test.
type Listener struct {
	Name string
	IP   string
	ln   net.Listener
	Log  *evlog.Log
	// Attempts counts TCP connections accepted (even if the handshake then fails).
	Attempts   atomic.Int64
	PlainFirst atomic.Int64 // connections that started with a plaintext handshake
	MSEFirst   atomic.Int64
}

func Listen(name, ip string, log *evlog.Log) (*Listener, error) {
	ln, err := net.Listen("tcp4", net.JoinHostPort(ip, "0"))
	if err != nil {
		return nil, err
	}
	return &Listener{Name: name, IP: ip, ln: ln, Log: log}, nil
}

func (l *Listener) Addr() *net.TCPAddr { return l.ln.Addr().(*net.TCPAddr) }
func (l *Listener) Close()             { l.ln.Close() }

type prefixConn struct {
	net.Conn
	pre []byte
}

func (p *prefixConn) Read(b []byte) (int, error) {
	if len(p.pre) > 0 {
		n := copy(b, p.pre)
		p.pre = p.pre[n:]
		return n, nil
	}
	return p.Conn.Read(b)
}

// Accept waits for one connection and shakes hands. A failed handshake returns an
// error; the caller may call Accept again (e.g. for the client's plaintext retry).
func (l *Listener) Accept(o HSOpts, timeout time.Duration) (*Conn, error) {
	if tl, ok := l.ln.(*net.TCPListener); ok {
		tl.SetDeadline(time.Now().Add(timeout))
	}
	raw, err := l.ln.Accept()
	if err != nil {
		return nil, err
	}
	l.Attempts.Add(1)
	l.Log.Add(l.Name, "tcp-accept", 0, 0, 0, raw.RemoteAddr().String(), nil)
	c := &Conn{Name: l.Name, LocalIP: l.IP, raw: raw, rw: raw, Log: l.Log, LocalFast: o.Fast}
	raw.SetDeadline(time.Now().Add(15 * time.Second))
	first := make([]byte, 20)
	if _, err := io.ReadFull(raw, first); err != nil {
		raw.Close()
		return nil, fmt.Errorf("%w: %v", ErrHandshake, err)
	}
	var h refwire.HS
	if first[0] == 19 && string(first[1:20]) == "BitTorrent protocol" {
		l.PlainFirst.Add(1)
		if o.Crypto == "mse-only" {
			raw.Close()
			return nil, fmt.Errorf("%w: plaintext refused", ErrHandshake)
		}
		rest := make([]byte, 48)
		if _, err := io.ReadFull(raw, rest); err != nil {
			raw.Close()
			return nil, fmt.Errorf("%w: %v", ErrHandshake, err)
		}
		h, _ = refwire.ParseHandshake(append(first, rest...))
	} else {
		l.MSEFirst.Add(1)
		if o.Crypto == "plain-only" {
			raw.Close()
			return nil, fmt.Errorf("%w: MSE refused", ErrHandshake)
		}
		r := rand.New(rand.NewSource(o.Seed))
		sel := func(p uint32) uint32 {
			if o.Crypto == "auto-plain" && p&1 != 0 {
				return 1
			}
			if p&2 != 0 {
				return 2
			}
			if p&1 != 0 {
				return 1
			}
			return 0
		}
		mc, ia, err := refmse.Respond(&prefixConn{Conn: raw, pre: first}, refmse.Opts{R: r, Pad1: r.Intn(512), Pad2: r.Intn(512), SKeys: [][]byte{o.InfoHash[:]}, Select: sel})
		if err != nil {
			raw.Close()
			return nil, fmt.Errorf("%w: %v", ErrHandshake, err)
		}
		c.rw = mc
		c.ViaMSE = true
		c.Encrypted = mc.Selected == refmse.RC4
		hb := ia
		if len(hb) < 68 {
			more := make([]byte, 68-len(hb))
			if _, err := io.ReadFull(mc, more); err != nil {
				raw.Close()
				return nil, fmt.Errorf("%w: %v", ErrHandshake, err)
			}
			hb = append(hb, more...)
		}
		h, err = refwire.ParseHandshake(hb[:68])
		if err != nil {
			raw.Close()
			return nil, fmt.Errorf("%w: %v", ErrHandshake, err)
		}
	}
	if h.InfoHash != o.InfoHash {
		raw.Close()
		return nil, fmt.Errorf("%w: foreign info hash", ErrHandshake)
	}
	if _, err := c.rw.Write(refwire.Handshake(reserved(o), o.InfoHash, o.PeerID)); err != nil {
		raw.Close()
		return nil, err
	}
	c.Remote = h
	raw.SetDeadline(time.Time{})
	l.Log.Add(l.Name, "handshake", 1, 0, 0, string(h.PeerID[:]), nil)
	return c, nil
}

// Send writes one frame.
func (c *Conn) Send(m refwire.Msg) error {
	b := refwire.Encode(m)
	c.wmu.Lock()
	defer c.wmu.Unlock()
	c.logMsg("tx", m)
	_, err := c.rw.Write(b)
	c.BytesOut.Add(int64(len(b)))
	return err
}

// SendRaw writes arbitrary bytes (hostile input).
func (c *Conn) SendRaw(b []byte) error {
	c.wmu.Lock()
	defer c.wmu.Unlock()
	c.Log.Add(c.Name, "tx-raw", int64(len(b)), 0, 0, "", nil)
	_, err := c.rw.Write(b)
	c.BytesOut.Add(int64(len(b)))
	return err
}

func (c *Conn) logMsg(dir string, m refwire.Msg) {
	if m.KeepAlive {
		c.Log.Add(c.Name, dir+":keepalive", 0, 0, 0, "", nil)
		return
	}
	var data []byte
	switch m.ID {
	case refwire.Bitfield, refwire.Extended:
		data = append([]byte(nil), m.Data...)
	}
	c.Log.AddEvent(evlog.Event{Src: c.Name, Kind: fmt.Sprintf("%s:%d", dir, m.ID), A: int64(m.Index), B: int64(m.Begin), C: pick(m), S: "", Data: data})
}

func pick(m refwire.Msg) int64 {
	switch m.ID {
	case refwire.Piece:
		return int64(len(m.Data))
	case refwire.Extended:
		return int64(m.ExtID)
	case refwire.Port:
		return int64(m.Port)
	}
	return int64(m.Length)
}

// Read returns the next frame (blocking up to timeout; 0 = no deadline).
func (c *Conn) Read(timeout time.Duration) (refwire.Msg, error) {
	if timeout > 0 {
		c.raw.SetReadDeadline(time.Now().Add(timeout))
	} else {
		c.raw.SetReadDeadline(time.Time{})
	}
	m, err := refwire.Read(c.rw, 1<<22)
	if err != nil {
		if err == refwire.ErrBadLength || err == refwire.ErrTooLarge {
			c.BadFrames.Add(1)
			c.Log.Add(c.Name, "rx-bad-frame", int64(m.ID), 0, 0, err.Error(), nil)
		}
		return m, err
	}
	c.BytesIn.Add(int64(m.Raw))
	c.Frames.Add(1)
	c.logMsg("rx", m)
	return m, nil
}

func (c *Conn) Close() {
	if !c.closed.Swap(true) {
		c.raw.Close()
		c.Log.Add(c.Name, "closed-by-script", 0, 0, 0, "", nil)
	}
}

func (c *Conn) Closed() bool { return c.closed.Load() }

func (c *Conn) RemoteAddr() net.Addr { return c.raw.RemoteAddr() }
func (c *Conn) LocalAddr() net.Addr  { return c.raw.LocalAddr() }

// ---------------------------------------------------------------- scripted seeder

// Content describes what a scripted peer holds.
type Content struct {
	PieceLen  int64
	Total     int64
	Truth     []byte
	NumPieces int
	// Pad[i] true => byte i of the flat layout belongs to a padding file (never requested)
}

func (ct *Content) Piece(i int) []byte {
	off := int64(i) * ct.PieceLen
	end := off + ct.PieceLen
	if end > ct.Total {
		end = ct.Total
	}
	return ct.Truth[off:end]
}

// SeederCfg scripts one serving peer.
type SeederCfg struct {
	Content *Content
	Have    []bool // nil => all
	// Announce: "bitfield", "haveall" (fast only), "haves", "lazy" (bitfield of half, rest as have later)
	Announce string
	// Unchoke: "on-interested", "immediate", "never"
	Unchoke string
	// Corrupt returns true if the block (index,begin) must be served with one flipped byte.
	Corrupt func(index, begin int) bool
	// Extra hostile behaviours, applied per request; return value tells what to do with this request:
	// "serve" | "drop" | "dup" | "wrong-index" | "wrong-begin" | "short" | "long" | "reject" | "close" | "unrequested"
	OnRequest func(n int, m refwire.Msg) string
	// ChokeEvery > 0: choke after every k-th served block, unchoke again after ChokePause
	ChokeEvery int
	ChokePause time.Duration
	// LateServe: on a connection without the fast extension the block that triggers the choke is
	// sent after the choke frame (it was 'already in the send buffer'), not before it
	LateServe bool
	// LateReject: on a connection with the fast extension a request that arrives while choking is
	// rejected after the unchoke frame instead of at once (BEP 6 sets no deadline for the reject: a peer
	// whose choke timer runs before its request queue answers in this order). The client then holds a
	// rejected block on an unchoked connection and no unchoke message will follow.
	LateReject  bool
	AllowedFast []int
	// ServeDelay before each block
	ServeDelay time.Duration
	// ExtHandshake: send an extended handshake (m: ut_metadata=3, ut_pex=4) when the remote supports it
	Metadata     []byte
	MetadataSize int // value to advertise (0 => len(Metadata) if Metadata != nil)
	ReqQ         int
	// PEXAdd: addresses offered in a ut_pex message right after the remote's extended handshake
	PEXAdd []*net.TCPAddr
	// MetaLie scripts the ut_metadata answers: "" honest | wrong-total-size | short-piece | long-piece | dup |
	// unrequested-index | garbage | reject | wrong-content | stall
	MetaLie string
	// StopAfter: close the connection after this many served blocks (0 = never)
	StopAfter int
	// StallAfter: stop answering after this many served blocks (keeps the connection open)
	StallAfter int
}

// SeederState is what the seeder observed; safe to read after Run returned or under Mu.
type SeederState struct {
	Mu             sync.Mutex
	Requests       []refwire.Msg
	Served         int
	ServedBytes    int64
	Interested     bool
	Unchoked       bool
	Outstanding    map[[3]uint32]bool
	RemoteHave     map[int]bool
	RemoteHaveAll  bool
	RemoteBitfield []byte
	GotHaveNone    bool
	Cancels        int
	Closed         bool
	CloseErr       error
	ExtHS          map[string]any
	MetaRequests   []int
	PEXMsgs        int
	PortMsgs       int
	AllowedFastRx  []int
	LateRejects    int // rejects held back until after the unchoke frame (SeederCfg.LateReject)
}

// RunSeeder drives the connection until it closes. It returns the observed state.
func RunSeeder(c *Conn, cfg SeederCfg, st *SeederState) {
	if st.Outstanding == nil {
		st.Outstanding = map[[3]uint32]bool{}
	}
	if st.RemoteHave == nil {
		st.RemoteHave = map[int]bool{}
	}
	ct := cfg.Content
	have := cfg.Have
	if have == nil && ct != nil {
		have = make([]bool, ct.NumPieces)
		for i := range have {
			have[i] = true
		}
	}
	all := true
	for _, h := range have {
		all = all && h
	}
	// announce what we hold
	switch {
	case cfg.Announce == "haveall" && c.FastOn() && all:
		c.Send(refwire.Msg{ID: refwire.HaveAll})
	case cfg.Announce == "haves":
		if c.FastOn() {
			c.Send(refwire.Msg{ID: refwire.HaveNone})
		}
		for i, h := range have {
			if h {
				c.Send(refwire.Msg{ID: refwire.Have, Index: uint32(i)})
			}
		}
	case cfg.Announce == "none":
	default:
		c.Send(refwire.Msg{ID: refwire.Bitfield, Data: refwire.BitfieldBytes(have)})
	}
	if c.Remote.Extended() && (cfg.Metadata != nil || cfg.MetadataSize != 0 || cfg.ReqQ != 0) {
		ms := cfg.MetadataSize
		if ms == 0 {
			ms = len(cfg.Metadata)
		}
		c.Send(extHandshake(ms, cfg.ReqQ))
	}
	for _, i := range cfg.AllowedFast {
		c.Send(refwire.Msg{ID: refwire.AllowedFast, Index: uint32(i)})
	}
	if cfg.Unchoke == "immediate" {
		c.Send(refwire.Msg{ID: refwire.Unchoke})
		st.Mu.Lock()
		st.Unchoked = true
		st.Mu.Unlock()
	}
	nreq := 0
	var lateRejects []refwire.Msg // guarded by st.Mu
	for {
		m, err := c.Read(0)
		if err != nil {
			st.Mu.Lock()
			st.Closed = true
			st.CloseErr = err
			st.Mu.Unlock()
			c.Log.Add(c.Name, "conn-ended", 0, 0, 0, err.Error(), nil)
			return
		}
		if m.KeepAlive {
			continue
		}
		switch m.ID {
		case refwire.Interested:
			st.Mu.Lock()
			st.Interested = true
			un := st.Unchoked
			st.Mu.Unlock()
			if !un && (cfg.Unchoke == "" || cfg.Unchoke == "on-interested") {
				st.Mu.Lock()
				st.Unchoked = true
				st.Mu.Unlock()
				c.Send(refwire.Msg{ID: refwire.Unchoke})
			}
		case refwire.NotInterested:
			st.Mu.Lock()
			st.Interested = false
			st.Mu.Unlock()
		case refwire.Have:
			st.Mu.Lock()
			st.RemoteHave[int(m.Index)] = true
			st.Mu.Unlock()
		case refwire.HaveAll:
			st.Mu.Lock()
			st.RemoteHaveAll = true
			st.Mu.Unlock()
		case refwire.HaveNone:
			st.Mu.Lock()
			st.GotHaveNone = true
			st.Mu.Unlock()
		case refwire.Bitfield:
			st.Mu.Lock()
			st.RemoteBitfield = append([]byte(nil), m.Data...)
			st.Mu.Unlock()
		case refwire.AllowedFast:
			st.Mu.Lock()
			st.AllowedFastRx = append(st.AllowedFastRx, int(m.Index))
			st.Mu.Unlock()
		case refwire.Cancel:
			st.Mu.Lock()
			st.Cancels++
			delete(st.Outstanding, [3]uint32{m.Index, m.Begin, m.Length})
			st.Mu.Unlock()
		case refwire.Port:
			st.Mu.Lock()
			st.PortMsgs++
			st.Mu.Unlock()
		case refwire.Extended:
			handleExt(c, cfg, st, m)
		case refwire.Request:
			st.Mu.Lock()
			st.Requests = append(st.Requests, m)
			st.Outstanding[[3]uint32{m.Index, m.Begin, m.Length}] = true
			served := st.Served
			st.Mu.Unlock()
			if cfg.StallAfter > 0 && served >= cfg.StallAfter {
				continue
			}
			// choke semantics: while choking, a fast peer rejects (BEP 6), a plain peer ignores
			st.Mu.Lock()
			chokedNow := !st.Unchoked
			st.Mu.Unlock()
			if chokedNow && !isAllowedFast(cfg.AllowedFast, int(m.Index)) {
				st.Mu.Lock()
				delete(st.Outstanding, [3]uint32{m.Index, m.Begin, m.Length})
				st.Mu.Unlock()
				if c.FastOn() {
					rej := refwire.Msg{ID: refwire.Reject, Index: m.Index, Begin: m.Begin, Length: m.Length}
					if cfg.LateReject {
						st.Mu.Lock()
						if !st.Unchoked {
							lateRejects = append(lateRejects, rej)
							st.LateRejects++
							st.Mu.Unlock()
							continue
						}
						st.Mu.Unlock()
					}
					c.Send(rej)
				}
				continue
			}
			action := "serve"
			if cfg.OnRequest != nil {
				action = cfg.OnRequest(nreq, m)
			}
			nreq++
			if ct == nil {
				continue
			}
			if int(m.Index) >= ct.NumPieces || !have[m.Index] {
				if c.FastOn() {
					c.Send(refwire.Msg{ID: refwire.Reject, Index: m.Index, Begin: m.Begin, Length: m.Length})
				}
				continue
			}
			pc := ct.Piece(int(m.Index))
			if int64(m.Begin)+int64(m.Length) > int64(len(pc)) {
				continue
			}
			blk := append([]byte(nil), pc[m.Begin:m.Begin+m.Length]...)
			if cfg.Corrupt != nil && cfg.Corrupt(int(m.Index), int(m.Begin)) && len(blk) > 0 {
				blk[len(blk)/2] ^= 0x5a
			}
			if cfg.ServeDelay > 0 {
				time.Sleep(cfg.ServeDelay)
			}
			out := refwire.Msg{ID: refwire.Piece, Index: m.Index, Begin: m.Begin, Data: blk}
			switch action {
			case "drop":
				continue
			case "reject":
				if c.FastOn() {
					c.Send(refwire.Msg{ID: refwire.Reject, Index: m.Index, Begin: m.Begin, Length: m.Length})
				}
				continue
			case "close":
				c.Close()
				continue
			case "dup":
				c.Send(out)
			case "wrong-index":
				out.Index = (m.Index + 1) % uint32(ct.NumPieces)
			case "wrong-begin":
				out.Begin = m.Begin + 1
			case "short":
				if len(blk) > 1 {
					out.Data = blk[:len(blk)-1]
				}
			case "long":
				out.Data = append(blk, 0x77)
			case "unrequested":
				// an extra block nobody asked for, then the real one
				c.Send(refwire.Msg{ID: refwire.Piece, Index: m.Index, Begin: (m.Begin + 16384) % uint32(len(pc)+1), Data: blk})
			}
			late := cfg.LateServe && cfg.ChokeEvery > 0 && (served+1)%cfg.ChokeEvery == 0 && !c.FastOn()
			if late {
				st.Mu.Lock()
				st.Unchoked = false
				st.Mu.Unlock()
				c.Send(refwire.Msg{ID: refwire.Choke})
				time.Sleep(25 * time.Millisecond)
			}
			if err := c.Send(out); err != nil {
				continue
			}
			st.Mu.Lock()
			st.Served++
			st.ServedBytes += int64(len(out.Data))
			delete(st.Outstanding, [3]uint32{m.Index, m.Begin, m.Length})
			served = st.Served
			st.Mu.Unlock()
			if cfg.StopAfter > 0 && served >= cfg.StopAfter {
				c.Close()
				continue
			}
			if cfg.ChokeEvery > 0 && served%cfg.ChokeEvery == 0 {
				if !late {
					st.Mu.Lock()
					st.Unchoked = false
					st.Mu.Unlock()
					c.Send(refwire.Msg{ID: refwire.Choke})
				}
				st.Mu.Lock()
				// a choke cancels what is outstanding (no fast extension) / we answer nothing more of it
				st.Outstanding = map[[3]uint32]bool{}
				st.Mu.Unlock()
				go func() {
					time.Sleep(cfg.ChokePause)
					if !c.Closed() {
						st.Mu.Lock()
						st.Unchoked = true // before the frame leaves: a request answering it must be served
						rj := lateRejects
						lateRejects = nil
						st.Mu.Unlock()
						c.Send(refwire.Msg{ID: refwire.Unchoke})
						for _, m := range rj {
							c.Send(m)
						}
					}
				}()
			}
		}
	}
}

func extHandshake(metadataSize, reqq int) refwire.Msg {
	return refwire.ExtHandshake(map[string]int{"ut_metadata": 3, "ut_pex": 4}, extDict(metadataSize, reqq))
}

func isAllowedFast(af []int, i int) bool {
	for _, x := range af {
		if x == i {
			return true
		}
	}
	return false
}
