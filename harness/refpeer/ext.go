package refpeer

import (
	"github.com/cenkalti/rain/v2/verifx/benc"
	"github.com/cenkalti/rain/v2/verifx/refwire"
)

func extDict(metadataSize, reqq int) benc.Dict {
	d := benc.Dict{{K: "v", V: "refpeer 1.0"}}
	if metadataSize != 0 {
		d = append(d, benc.KV{K: "metadata_size", V: int64(metadataSize)})
	}
	if reqq != 0 {
		d = append(d, benc.KV{K: "reqq", V: int64(reqq)})
	}
	return d
}

// handleExt answers extended messages: records the remote's extended handshake,
// serves ut_metadata requests honestly from cfg.Metadata.
func handleExt(c *Conn, cfg SeederCfg, st *SeederState, m refwire.Msg) {
	d, rest, err := refwire.ParseExt(m.Data)
	if err != nil {
		c.Log.Add(c.Name, "rx-ext-undecodable", int64(m.ExtID), 0, 0, err.Error(), nil)
		return
	}
	_ = rest
	switch m.ExtID {
	case 0:
		mm := map[string]any{}
		for _, kv := range d {
			mm[kv.K] = kv.V
		}
		st.Mu.Lock()
		st.ExtHS = mm
		st.Mu.Unlock()
		if len(cfg.PEXAdd) > 0 {
			// peer exchange: offer the scripted addresses (BEP 11), to the id the remote assigned, else to a guessed one
			rid := remoteExtID(st, "ut_pex")
			if rid == 0 {
				rid = 2
			}
			var added, flags []byte
			for _, a := range cfg.PEXAdd {
				ip4 := a.IP.To4()
				added = append(added, ip4[0], ip4[1], ip4[2], ip4[3], byte(a.Port>>8), byte(a.Port))
				flags = append(flags, 0x02)
			}
			c.Send(refwire.Msg{ID: refwire.Extended, ExtID: rid, Data: benc.Encode(benc.Dict{{K: "added", V: string(added)}, {K: "added.f", V: string(flags)}, {K: "dropped", V: ""}})})
		}
	case 3: // our ut_metadata id
		t, _ := d.Get("msg_type")
		p, _ := d.Get("piece")
		ti, _ := t.(int64)
		pi, _ := p.(int64)
		if ti == 0 {
			st.Mu.Lock()
			st.MetaRequests = append(st.MetaRequests, int(pi))
			st.Mu.Unlock()
			rid := remoteExtID(st, "ut_metadata")
			if cfg.Metadata == nil || rid == 0 {
				return
			}
			off := int(pi) * 16384
			if off >= len(cfg.Metadata) || pi < 0 {
				c.Send(refwire.MetadataMsg(rid, 2, int(pi), -1, nil))
				return
			}
			end := off + 16384
			if end > len(cfg.Metadata) {
				end = len(cfg.Metadata)
			}
			data := append([]byte(nil), cfg.Metadata[off:end]...)
			total := len(cfg.Metadata)
			switch cfg.MetaLie {
			case "stall":
				return
			case "reject":
				c.Send(refwire.MetadataMsg(rid, 2, int(pi), -1, nil))
				return
			case "wrong-total-size":
				total += 1 + int(pi)
			case "short-piece":
				if len(data) > 1 {
					data = data[:len(data)-1]
				}
			case "long-piece":
				data = append(data, 'e')
			case "dup":
				c.Send(refwire.MetadataMsg(rid, 1, int(pi), total, data))
			case "unrequested-index":
				c.Send(refwire.MetadataMsg(rid, 1, int(pi)+7, total, data))
			case "garbage":
				c.Send(refwire.Msg{ID: refwire.Extended, ExtID: rid, Data: []byte("d8:msg_typei1e5:piecei0e10:total_sizei-5eeXXXX")})
				c.Send(refwire.Msg{ID: refwire.Extended, ExtID: rid, Data: []byte("not bencode at all")})
				return
			case "wrong-content":
				for i := range data {
					data[i] ^= 0x20
				}
			}
			c.Send(refwire.MetadataMsg(rid, 1, int(pi), total, data))
		}
	case 4: // our ut_pex id
		st.Mu.Lock()
		st.PEXMsgs++
		st.Mu.Unlock()
	}
}

// remoteExtID looks up the id the remote assigned to an extension in its handshake.
func remoteExtID(st *SeederState, name string) byte {
	st.Mu.Lock()
	defer st.Mu.Unlock()
	if st.ExtHS == nil {
		return 0
	}
	m, ok := st.ExtHS["m"].(benc.Dict)
	if !ok {
		return 0
	}
	v, ok := m.Get(name)
	if !ok {
		return 0
	}
	i, _ := v.(int64)
	return byte(i)
}

// RemoteExtID is the exported lookup.
func RemoteExtID(st *SeederState, name string) byte { return remoteExtID(st, name) }
