// C01: download integrity. Offline oracle over the merged event log of one
// leeching session: recording storage (every WriteAt with payload), scripted
// peers (every frame the client sent), API samples, resume database.
package main

import (
	"bytes"
	"fmt"
	"os"
	"path/filepath"
	"sort"
	"strings"
	"sync"
	"time"

	"github.com/cenkalti/rain/v2/verifx/dl"
	"github.com/cenkalti/rain/v2/verifx/gen"
	"github.com/cenkalti/rain/v2/verifx/refwire"
	"github.com/cenkalti/rain/v2/verifx/sess"
	"github.com/cenkalti/rain/v2/verifx/vx"
)

var run *vx.Run

type claim struct {
	seq   int64
	who   string
	kind  string
	index int   // -1: a set of pieces
	bits  []int // for bitfield / haveall
	count int   // for stats: number of pieces claimed
}

func judge(k int, spec *dl.Spec, res *dl.Result) (viol [][2]string, fp string) {
	l := spec.Layout
	truth := res.Truth
	pl := int64(l.PieceLen)
	np := l.NumPieces()
	pad := sess.PadMap(l)
	fileOff := map[string]int64{}
	fileLen := map[string]int64{}
	for i, f := range l.Files {
		if f.Pad {
			continue
		}
		off, _ := l.FileRange(i)
		fileOff[filepath.FromSlash(l.JoinedPath(i))] = off
		fileLen[filepath.FromSlash(l.JoinedPath(i))] = f.Length
	}
	add := func(sig, f string, a ...any) {
		if len(viol) < 4 {
			viol = append(viol, [2]string{sig, fmt.Sprintf(f, a...)})
		}
	}
	// ---- merge: storage write events and claims, ordered by sequence number
	type item struct {
		seq int64
		st  int // index into res.Storage, or -1
		cl  *claim
	}
	var items []item
	var winBegin, winEnd int64 // claims between an external deletion and the client's next look at the files are not judged
	for i, e := range res.Storage {
		if e.Kind == "write" || e.Kind == "delete" {
			items = append(items, item{seq: e.Seq, st: i})
		}
	}
	for _, e := range res.Events {
		switch {
		case e.Kind == "rx:4": // have
			items = append(items, item{seq: e.Seq, st: -1, cl: &claim{seq: e.Seq, who: e.Src, kind: "have", index: int(e.A)}})
		case e.Kind == "rx:5":
			var bits []int
			for i := 0; i < np; i++ {
				if refwire.BitSet(e.Data, i) {
					bits = append(bits, i)
				}
			}
			items = append(items, item{seq: e.Seq, st: -1, cl: &claim{seq: e.Seq, who: e.Src, kind: "bitfield", index: -1, bits: bits}})
		case e.Kind == "rx:14":
			bits := make([]int, np)
			for i := range bits {
				bits[i] = i
			}
			items = append(items, item{seq: e.Seq, st: -1, cl: &claim{seq: e.Seq, who: e.Src, kind: "have-all", index: -1, bits: bits}})
		case e.Src == "api" && e.Kind == "delete-window-begin":
			winBegin = e.Seq
		case e.Src == "api" && e.Kind == "delete-window-end":
			winEnd = e.Seq
		case e.Src == "api" && (e.Kind == "stats" || e.Kind == "final-stats"):
			items = append(items, item{seq: e.Seq, st: -1, cl: &claim{seq: e.Seq, who: "Stats()", kind: e.Kind, index: -2, count: int(e.A)}})
		}
	}
	sort.Slice(items, func(i, j int) bool { return items[i].seq < items[j].seq })
	written := make([]bool, len(truth)) // non-padding byte has been stored correctly (write returned)
	pending := map[string][2]int64{}    // writes entered, not yet returned
	need := make([]int, np)             // non-padding bytes per piece still missing
	for i := int64(0); i < int64(len(truth)); i++ {
		if !pad[i] {
			need[i/pl]++
		}
	}
	covered := func(i int) bool { return i >= 0 && i < np && need[i] == 0 }
	nCovered := func() int {
		n := 0
		for i := 0; i < np; i++ {
			if need[i] == 0 {
				n++
			}
		}
		return n
	}
	nWrites, nClaims := 0, 0
	for _, it := range items {
		if it.st >= 0 {
			e := res.Storage[it.st]
			off, ok := fileOff[e.Name]
			if e.Kind == "delete" {
				// the file was removed while the torrent was stopped: nothing of it is stored any more
				if ok {
					for b := off; b < off+fileLen[e.Name]; b++ {
						if written[b] {
							written[b] = false
							if !pad[b] {
								need[b/pl]++
							}
						}
					}
				}
				continue
			}
			key := fmt.Sprintf("%s@%d", e.Name, e.Off)
			if !e.Exit {
				nWrites++
				if !ok {
					add("write-to-foreign-or-padding-file", "WriteAt on %q which is not a non-padding file of the torrent", e.Name)
					continue
				}
				if e.Off < 0 || e.Off+int64(e.Len) > fileLen[e.Name] {
					add("write-outside-file", "WriteAt(%q, off %d, len %d) outside the file of %d bytes", e.Name, e.Off, e.Len, fileLen[e.Name])
					continue
				}
				if !bytes.Equal(e.Data, truth[off+e.Off:off+e.Off+int64(e.Len)]) {
					first := 0
					for first < len(e.Data) && e.Data[first] == truth[off+e.Off+int64(first)] {
						first++
					}
					add("wrote-unverified-bytes", "WriteAt(%q, off %d, len %d) stores bytes that differ from the metainfo's content (first difference at +%d, piece %d)", e.Name, e.Off, e.Len, first, (off+e.Off+int64(first))/pl)
					continue
				}
				pending[key] = [2]int64{off + e.Off, int64(e.Len)}
			} else if p, ok2 := pending[key]; ok2 && e.Err == "" {
				for b := p[0]; b < p[0]+p[1]; b++ {
					if !written[b] {
						written[b] = true
						if !pad[b] {
							need[b/pl]--
						}
					}
				}
				delete(pending, key)
			}
			continue
		}
		c := it.cl
		if winBegin != 0 && c.seq > winBegin && (winEnd == 0 || c.seq < winEnd) {
			continue
		}
		nClaims++
		switch c.index {
		case -2:
			if c.count > nCovered() {
				add("stats-claims-unwritten-piece", "%s reported %d pieces held when only %d pieces had all their bytes stored", c.who, c.count, nCovered())
			}
		case -1:
			for _, b := range c.bits {
				if !covered(b) {
					add("reported-unwritten-piece:"+c.kind, "%s sent to %s claims piece %d whose bytes were not (all) stored at that time", c.kind, c.who, b)
					break
				}
			}
		default:
			if !covered(c.index) {
				add("reported-unwritten-piece:have", "have(%d) sent to %s before the piece's bytes were all stored", c.index, c.who)
			}
		}
	}
	// resume data after close
	if res.ResumeErr == "" && len(res.ResumeBitfield) > 0 {
		for i := 0; i < np; i++ {
			if refwire.BitSet(res.ResumeBitfield, i) && !covered(i) {
				add("resume-claims-unwritten-piece", "resume database marks piece %d as held but its bytes were never all stored", i)
				break
			}
		}
	}
	// completion => files identical
	if res.Completed && len(res.FilesBad) > 0 {
		add("complete-with-wrong-files", "completion reported but %v", res.FilesBad)
	}
	if res.Final.Status.String() == "Seeding" && len(res.FilesBad) > 0 {
		add("seeding-with-wrong-files", "status Seeding but %v", res.FilesBad)
	}
	// ban probe: the peer that delivered a complete corrupt piece is dropped and never used again
	if spec.BanProbe && len(res.Seeders) == 2 {
		x := res.Seeders[0]
		bad := x.Spec.Param % np
		// did X deliver every block of the corrupt piece? (blocks of `bad` served in its first connection)
		var served int64
		firstConn := x.L.Name
		var lastBlockSeq int64
		reqAfter := 0
		var handshakes []int64
		for _, e := range res.Events {
			if e.Src != firstConn {
				continue
			}
			if e.Kind == "tx:7" && int(e.A) == bad && (res.BanSeq == 0 || e.Seq < res.BanSeq) {
				served += e.C
				lastBlockSeq = e.Seq
			}
			if e.Kind == "handshake" {
				handshakes = append(handshakes, e.Seq)
			}
		}
		var nonpad int64
		for b := int64(bad) * pl; b < int64(bad+1)*pl && b < int64(len(truth)); b++ {
			if !pad[b] {
				nonpad++
			}
		}
		if nonpad > 0 && served >= nonpad {
			run.Count("ban_probes_with_corrupt_piece_delivered", 1)
			for _, e := range res.Events {
				if e.Src == firstConn && e.Kind == "rx:6" && e.Seq > lastBlockSeq {
					reqAfter++
				}
			}
			if res.BanSeq == 0 {
				add("corrupt-source-not-disconnected", "peer %s delivered all %d bytes of corrupt piece %d; its connection was still open at the end (%d further requests)", x.Addr, nonpad, bad, reqAfter)
			} else {
				// requests sent between the last block and the disconnect are the client's optimistic
				// pipelining (it asks for the next piece while the finished one is hashed): not judged
				run.Count("requests_pipelined_before_ban", int64(reqAfter))
				for _, h := range handshakes {
					if h > res.BanSeq {
						add("corrupt-source-reused", "a new connection to %s completed its handshake after the peer had been dropped for a corrupt piece", x.Addr)
						break
					}
				}
			}
		}
	}
	// fingerprint: order of key events
	var kinds []string
	for _, it := range items {
		if it.st >= 0 {
			if !res.Storage[it.st].Exit {
				kinds = append(kinds, "W")
			}
		} else if it.cl.index >= 0 {
			kinds = append(kinds, "h")
		} else if it.cl.index == -1 {
			kinds = append(kinds, "B")
		}
		if len(kinds) > 60 {
			break
		}
	}
	for _, e := range res.Events {
		if strings.HasPrefix(e.Kind, "call:") {
			kinds = append(kinds, e.Kind[5:6])
		}
	}
	run.Count("storage_writes_checked", int64(nWrites))
	run.Count("claims_checked", int64(nClaims))
	var pk []string
	for _, p := range spec.Peers {
		pk = append(pk, p.Kind)
	}
	sort.Strings(pk)
	fp = vx.Hash(l.String(), pk, len(spec.Webs), spec.Sequential, strings.Join(kinds, ""))
	return viol, fp
}

func scenario(k int) {
	r := run.Rand("c01", k)
	spec := dl.GenSpec(r, k, "c01")
	id := fmt.Sprintf("c01-%d", k)
	run.CaseStart(id + " " + spec.Describe())
	defer run.CaseEndDeferred(id + " " + spec.Describe())
	dir := fmt.Sprintf("%s/s%d", run.Work, k)
	os.MkdirAll(dir, 0o755)
	defer os.RemoveAll(dir)
	if !spec.HonestFull() {
		spec.MaxWait = 2 * time.Second // nothing guarantees completion: observe for a while only
		spec.NoQuiesce = true
	}
	spec.NoQuiesce = true // C01 does not judge progress
	res := dl.Run(spec, dir)
	run.Eval(1)
	if res.AddErr != nil {
		run.Inconclusive(fmt.Sprintf("scenario %d: add failed: %v", k, res.AddErr))
		return
	}
	viol, fp := judge(k, spec, res)
	for _, v := range viol {
		run.Violation(v[0], fmt.Sprintf("scenario %d: %s (%s)", k, v[1], spec.Describe()), map[string]any{"scenario": k, "spec": spec.Describe(), "completed": res.Completed, "final_status": res.Final.Status.String()})
	}
	if res.Completed {
		run.Count("completed", 1)
	}
	if spec.BanProbe {
		run.Count("ban_probe_scenarios", 1)
	}
	if len(spec.Commands) > 0 {
		run.Count("scenarios_with_stop_start", 1)
	}
	if len(res.Storage) > 0 {
		run.Distinct(fp)
	}
	if k%50 == 2 {
		run.Sample(map[string]any{"spec": spec.Describe(), "completed": res.Completed, "storage_events": len(res.Storage), "peer_and_api_events": len(res.Events)})
	}
	_ = gen.InfoHash
}

func main() {
	run = vx.Begin("C01", "exploration",
		"PRNG download scenarios: layouts incl. padding and odd piece lengths x 0-2 honest scripted seeders x 0-3 hostile peers (one corrupt byte / all corrupt, duplicate, unrequested, wrong index, wrong offset, short, long, dropped, rejected blocks, choke flapping, stall, disconnect, partial bitfield) x web seeds (honest / corrupt / short / 5xx / flaky / slow) x end-game limit {1,2,20} x storage-write delays 0-40 ms x stop/start commands mid-download; ban probes with a single corrupt source. Oracle: offline pass in global sequence order over every storage WriteAt (payload vs ground truth), every have/bitfield/have-all frame received by a scripted peer, Stats() samples and the resume bitfield. distinct = distinct (spec class, order of write/have/command events)")
	vx.StartCanary()
	if vx.ChildRole() == "scen" {
		lo, hi := 0, 0
		fmt.Sscanf(os.Getenv("VX_RANGE"), "%d-%d", &lo, &hi)
		for k := lo; k < hi; k++ {
			if run.Violations() >= 4 {
				break // enough evidence from this child; the rest would only take time
			}
			scenario(k)
		}
		run.Finish(0)
	}
	n := run.N(480, 12000)
	children := 16
	per := (n + children - 1) / children
	var wg sync.WaitGroup
	for c := 0; c < children; c++ {
		lo, hi := c*per, (c+1)*per
		if hi > n {
			hi = n
		}
		if lo >= hi {
			continue
		}
		wg.Add(1)
		go func(lo, hi int) {
			defer wg.Done()
			for lo < hi {
				res := run.Spawn("scen", []string{fmt.Sprintf("VX_RANGE=%d-%d", lo, hi)}, time.Duration(hi-lo)*60*time.Second+2*time.Minute)
				if !res.Crashed && !res.TimedOut {
					return
				}
				var k int
				fmt.Sscanf(res.OpenCase, "c01-%d", &k)
				if res.OpenCase == "" {
					run.Inconclusive("child ended abnormally outside a scenario: " + res.PanicText)
					return
				}
				logp := run.KeepLog(res, fmt.Sprintf("crash-%d.log", k))
				if res.TimedOut && !res.Crashed {
					run.Inconclusive(fmt.Sprintf("scenario %d: child watchdog (log %s)", k, logp))
				} else {
					run.Violation("crash:"+res.RainFrame, fmt.Sprintf("scenario %d: client crashed: %s at %s (log %s); %s", k, res.PanicText, res.RainFrame, logp, res.OpenCase), map[string]any{"case": res.OpenCase, "tail": res.Tail})
				}
				lo = k + 1
			}
		}(lo, hi)
	}
	wg.Wait()
	run.Assume("SHA-1 collisions are out of scope; hostile behaviours are those of the scripted repertoire")
	run.Finish(100)
}
