// Session-level encryption policy: what a real Session configured with the Force/Disable flags puts on the
// wire. The first bytes of every connection are recorded by raw TCP endpoints (outgoing) or written by a
// raw client (incoming); the torrent's info-hash in clear text right after "\x13BitTorrent protocol" is
// what a plaintext handshake looks like, an MSE handshake starts with 96 bytes of a DH public key.
package main

import (
	"bytes"
	"fmt"
	"io"
	"net"
	"os"
	"path/filepath"
	"sync"
	"time"

	"github.com/cenkalti/rain/v2/torrent"
	"github.com/cenkalti/rain/v2/verifx/gen"
	"github.com/cenkalti/rain/v2/verifx/memstore"
	"github.com/cenkalti/rain/v2/verifx/sess"
)

var plainPrefix = []byte("\x13BitTorrent protocol")

// sessionPolicy runs one session with the given flags; it is dialled by / dials raw endpoints.
func sessionPolicy(k int, disableOut, forceOut, forceIn bool) {
	label := fmt.Sprintf("session-policy-%d disableOut=%v forceOut=%v forceIn=%v", k, disableOut, forceOut, forceIn)
	dir := filepath.Join(run.Work, fmt.Sprintf("sp%d", k))
	os.MkdirAll(dir, 0o755)
	defer os.RemoveAll(dir)
	s, cfg, err := sess.New(sess.Opts{Dir: dir, Storage: memstore.NewProvider(filepath.Join(dir, "mem")), Mutate: func(c *torrent.Config) {
		c.DisableOutgoingEncryption = disableOut
		c.ForceOutgoingEncryption = forceOut
		c.ForceIncomingEncryption = forceIn
	}})
	if err != nil {
		run.Inconclusive(label + ": session: " + err.Error())
		return
	}
	defer s.Close()
	run.Eval(1)
	l := &gen.Layout{Name: fmt.Sprintf("sp%d", k), PieceLen: 16384, Seed: int64(9000 + k), Single: true, Files: []gen.FileSpec{{Length: 70000}}}
	info := l.InfoBytes(l.Truth())
	ih := gen.InfoHash(info)
	t, err := s.AddTorrent(bytes.NewReader(gen.TorrentBytes(info, nil, nil)), &torrent.AddTorrentOptions{ID: fmt.Sprintf("sp%d", k)})
	if err != nil {
		run.Inconclusive(label + ": add: " + err.Error())
		return
	}
	sess.WaitStatus(t, 5*time.Second, torrent.Downloading)

	// outgoing: two raw listeners that only record the first bytes of every connection and then hang up
	type first struct {
		b  []byte
		at time.Time
	}
	var mu sync.Mutex
	var firsts []first
	var lns []net.Listener
	for i := 0; i < 2; i++ {
		ln, err := net.Listen("tcp4", net.JoinHostPort(sess.NextIP(), "0"))
		if err != nil {
			run.Inconclusive(label + ": listen: " + err.Error())
			return
		}
		lns = append(lns, ln)
		defer ln.Close()
		go func() {
			for {
				c, err := ln.Accept()
				if err != nil {
					return
				}
				go func() {
					defer c.Close()
					c.SetReadDeadline(time.Now().Add(3 * time.Second))
					b := make([]byte, 20)
					n, _ := io.ReadFull(c, b)
					mu.Lock()
					firsts = append(firsts, first{b[:n], time.Now()})
					mu.Unlock()
				}()
			}
		}()
	}
	for _, ln := range lns {
		t.AddPeer(ln.Addr().String())
	}
	// the client retries a failed MSE attempt in plaintext (when allowed) on a second connection: watch for a while
	sess.WaitFor(4*time.Second, func() bool { mu.Lock(); defer mu.Unlock(); return len(firsts) >= 2 })
	time.Sleep(1500 * time.Millisecond)
	for _, ln := range lns {
		t.AddPeer(ln.Addr().String()) // offered again: a redial must obey the flags as well
	}
	time.Sleep(1200 * time.Millisecond)
	mu.Lock()
	seen := append([]first(nil), firsts...)
	mu.Unlock()
	nPlain, nOther := 0, 0
	for _, f := range seen {
		if len(f.b) >= len(plainPrefix) && bytes.Equal(f.b[:len(plainPrefix)], plainPrefix) {
			nPlain++
		} else if len(f.b) > 0 {
			nOther++
		}
	}
	run.Count("session_outgoing_connections_observed", int64(len(seen)))
	if len(seen) == 0 {
		run.Inconclusive(label + ": the session never dialled the offered addresses")
		return
	}
	if forceOut && nPlain > 0 {
		run.Violation("session-forced-outgoing-plaintext", fmt.Sprintf("%s: with ForceOutgoingEncryption the session opened %d of %d outgoing connections with the plaintext BitTorrent handshake", label, nPlain, len(seen)), map[string]any{"first_bytes": fmt.Sprintf("%x", seen[0].b)})
		return
	}
	if forceOut {
		run.Count("session_forced_outgoing_all_mse", 1)
	}
	if !forceOut && !disableOut && nPlain > 0 && nOther > 0 {
		run.Count("session_control_mse_then_plaintext_retry_seen", 1) // observability: both kinds are told apart
	}
	if disableOut && nPlain > 0 {
		run.Count("session_control_plaintext_when_disabled_seen", 1)
	}

	// incoming: a raw client offers the plaintext handshake for this torrent
	addr := sess.ListenAddr(cfg, t)
	d := net.Dialer{Timeout: 3 * time.Second, LocalAddr: &net.TCPAddr{IP: net.ParseIP(sess.NextIP())}}
	c, err := d.Dial("tcp4", addr)
	if err != nil {
		run.Inconclusive(label + ": dial session: " + err.Error())
		return
	}
	defer c.Close()
	hs := append([]byte(nil), plainPrefix...)
	hs = append(hs, 0, 0, 0, 0, 0, 0x10, 0, 0x04)
	hs = append(hs, ih[:]...)
	hs = append(hs, []byte("-RF0001-sessionpolcy")...)
	c.Write(hs)
	c.SetReadDeadline(time.Now().Add(2500 * time.Millisecond))
	rb := make([]byte, 68)
	n, _ := io.ReadFull(c, rb)
	answered := n >= len(plainPrefix) && bytes.Equal(rb[:len(plainPrefix)], plainPrefix)
	run.Count("session_incoming_plaintext_offers", 1)
	if forceIn && answered {
		run.Violation("session-forced-incoming-plaintext-accepted", fmt.Sprintf("%s: with ForceIncomingEncryption the session answered a plaintext handshake with its own handshake (%d bytes)", label, n), nil)
		return
	}
	if !forceIn && answered {
		run.Count("session_control_plaintext_incoming_accepted", 1)
	}
	run.Distinct(fmt.Sprintf("session|%v|%v|%v", disableOut, forceOut, forceIn))
}
