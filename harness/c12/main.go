// C12: MSE handshake/stream. Both ends of every handshake are observed:
// rain<->rain, reference initiator -> rain responder, rain initiator -> reference
// responder (pad lengths enumerated by the reference side), plus the encryption
// policy matrix at btconn.Dial/Accept.
package main

import (
	"bytes"
	"fmt"
	"io"
	"math/rand"
	"net"
	"runtime"
	"sync"
	"sync/atomic"
	"time"

	"github.com/cenkalti/rain/v2/internal/btconn"
	"github.com/cenkalti/rain/v2/internal/logger"
	"github.com/cenkalti/rain/v2/internal/mse"
	"github.com/cenkalti/rain/v2/verifx/memconn"
	"github.com/cenkalti/rain/v2/verifx/refmse"
	"github.com/cenkalti/rain/v2/verifx/refwire"
	"github.com/cenkalti/rain/v2/verifx/vx"
)

var run *vx.Run

// chunked net.Pipe end: every Write is split by a PRNG pattern.
type chunkConn struct {
	net.Conn
	r    *rand.Rand
	mode int
	mu   sync.Mutex
}

func (f *chunkConn) Write(p []byte) (int, error) {
	f.mu.Lock()
	defer f.mu.Unlock()
	total := 0
	for len(p) > 0 {
		var n int
		switch f.mode {
		case 0:
			n = len(p)
		case 1:
			n = 1
		case 2:
			n = 1 + f.r.Intn(20)
		case 3:
			n = 96
		case 4:
			n = 1 + f.r.Intn(700)
		default:
			n = []int{95, 96, 97, 607, 608, 609, 20, 8}[f.r.Intn(8)]
		}
		if n > len(p) {
			n = len(p)
		}
		m, err := f.Conn.Write(p[:n])
		total += m
		if err != nil {
			return total, err
		}
		p = p[n:]
	}
	return total, nil
}

func pipe(r *rand.Rand, modeA, modeB int) (net.Conn, net.Conn) {
	a, b := memconn.Pipe()
	return &chunkConn{Conn: a, r: rand.New(rand.NewSource(r.Int63())), mode: modeA}, &chunkConn{Conn: b, r: rand.New(rand.NewSource(r.Int63())), mode: modeB}
}

type endResult struct {
	err      error
	selected uint32
	ia       []byte // responder: initial payload as read from the stream
	rd       []byte // bytes read after the handshake
	panicked string
}

// exchange: after both handshakes, a writes wa and reads len(wb); b likewise.
func rw(c io.ReadWriter, w []byte, nread int, r *rand.Rand) ([]byte, error) {
	errC := make(chan error, 1)
	go func() {
		// write in a few pieces
		p := w
		for len(p) > 0 {
			n := 1 + r.Intn(len(p))
			if _, err := c.Write(p[:n]); err != nil {
				errC <- err
				return
			}
			p = p[n:]
		}
		errC <- nil
	}()
	got := make([]byte, nread)
	_, err := io.ReadFull(c, got)
	if werr := <-errC; err == nil {
		err = werr
	}
	return got, err
}

type caseSpec struct {
	Kind     string // rain-rain | ref-init | ref-resp
	SKeyOK   bool
	Provide  uint32
	SelMode  int // responder select behaviour: 0 honest(prefer RC4) 1 prefer plain 2 not-offered 3 zero 4 multi-bit
	Pad1     int
	Pad2     int
	IALen    int
	ModeA    int
	ModeB    int
	CorruptVC bool
	Seed     int64
}

func selectFn(mode int) func(p uint32) uint32 {
	return func(p uint32) uint32 {
		switch mode {
		case 0:
			if p&2 != 0 {
				return 2
			}
			if p&1 != 0 {
				return 1
			}
			return 0
		case 1:
			if p&1 != 0 {
				return 1
			}
			if p&2 != 0 {
				return 2
			}
			return 0
		case 2: // something not offered
			for _, c := range []uint32{1, 2, 4} {
				if p&c == 0 {
					return c
				}
			}
			return 8
		case 3:
			return 0
		default:
			return p | 3
		}
	}
}

// run one handshake pair; returns (initiator result, responder result)
func runCase(cs caseSpec) (ini, res endResult, inconclusive string) {
	r := rand.New(rand.NewSource(cs.Seed))
	ca, cb := pipe(r, cs.ModeA, cs.ModeB)
	defer ca.Close()
	defer cb.Close()
	dl := time.Now().Add(60 * time.Second)
	ca.SetDeadline(dl)
	cb.SetDeadline(dl)
	skey := make([]byte, 20)
	r.Read(skey)
	known := skey
	if !cs.SKeyOK {
		known = append([]byte("other"), skey...)
	}
	ia := make([]byte, cs.IALen)
	r.Read(ia)
	wa := make([]byte, 1+r.Intn(3000))
	wb := make([]byte, 1+r.Intn(3000))
	r.Read(wa)
	r.Read(wb)
	var wg sync.WaitGroup
	wg.Add(2)
	t0 := time.Now()
	var iniDone, resDone atomic.Bool
	// initiator
	go func() {
		defer wg.Done()
		defer iniDone.Store(true)
		defer func() {
			if e := recover(); e != nil {
				ini.panicked = fmt.Sprint(e)
				ca.Close()
			}
		}()
		rr := rand.New(rand.NewSource(cs.Seed + 1))
		var c io.ReadWriter
		if cs.Kind == "ref-init" {
			rc, err := refmse.Initiate(ca, refmse.Opts{R: rr, Pad1: cs.Pad1, Pad2: cs.Pad2, Provide: cs.Provide, IA: ia, SKey: skey, CorruptVC: cs.CorruptVC})
			ini.err = err
			if err != nil {
				ca.Close()
				return
			}
			ini.selected = rc.Selected
			c = rc
		} else {
			s := mse.NewStream(ca)
			sel, err := s.HandshakeOutgoing(skey, mse.CryptoMethod(cs.Provide), ia)
			ini.err = err
			ini.selected = uint32(sel)
			if err != nil {
				ca.Close()
				return
			}
			c = s
		}
		got, err := rw(c, wa, len(wb), rr)
		ini.rd = got
		if err != nil {
			ini.err = fmt.Errorf("after handshake: %w", err)
			ca.Close()
		}
	}()
	// responder
	go func() {
		defer wg.Done()
		defer resDone.Store(true)
		defer func() {
			if e := recover(); e != nil {
				res.panicked = fmt.Sprint(e)
				cb.Close()
			}
		}()
		rr := rand.New(rand.NewSource(cs.Seed + 2))
		var c io.ReadWriter
		if cs.Kind == "ref-resp" {
			rc, gotIA, err := refmse.Respond(cb, refmse.Opts{R: rr, Pad1: cs.Pad1, Pad2: cs.Pad2, SKeys: [][]byte{known}, Select: selectFn(cs.SelMode)})
			res.err = err
			if err != nil {
				cb.Close()
				return
			}
			res.selected = rc.Selected
			res.ia = gotIA
			c = rc
		} else {
			s := mse.NewStream(cb)
			var sel mse.CryptoMethod
			f := selectFn(cs.SelMode)
			err := s.HandshakeIncoming(func(hh [20]byte) []byte {
				if hh == mse.HashSKey(known) {
					return known
				}
				return nil
			}, func(p mse.CryptoMethod) mse.CryptoMethod { sel = mse.CryptoMethod(f(uint32(p))); return sel })
			res.err = err
			if err != nil {
				cb.Close()
				return
			}
			res.selected = uint32(sel)
			// initial payload arrives as the first bytes of the stream
			res.ia = make([]byte, len(ia))
			if _, err := io.ReadFull(s, res.ia); err != nil {
				res.err = fmt.Errorf("reading initial payload: %w", err)
				cb.Close()
				return
			}
			c = s
		}
		got, err := rw(c, wb, len(wa), rr)
		res.rd = got
		if err != nil {
			res.err = fmt.Errorf("after handshake: %w", err)
			cb.Close()
		}
	}()
	done := make(chan struct{})
	go func() { wg.Wait(); close(done) }()
	select {
	case <-done:
	case <-time.After(50 * time.Second):
		ca.Close()
		cb.Close()
		<-done
		if vx.CanaryWorstSince(t0) > time.Second {
			return ini, res, "handshake pair exceeded the watchdog while the load canary was late"
		}
		// one side returned and the other stayed blocked on an unbuffered pipe: a logical hang
		if ini.err == nil {
			ini.err = fmt.Errorf("blocked (peer idle) until watchdog")
		}
		if res.err == nil {
			res.err = fmt.Errorf("blocked (peer idle) until watchdog")
		}
	}
	// judge
	exp := func(want []byte, got []byte) bool { return bytes.Equal(want, got) }
	_ = exp
	if ini.err == nil && res.err == nil {
		if !bytes.Equal(ini.rd, wb) {
			ini.err = fmt.Errorf("DATA: initiator read bytes differ from what the responder wrote")
		}
		if !bytes.Equal(res.rd, wa) {
			res.err = fmt.Errorf("DATA: responder read bytes differ from what the initiator wrote")
		}
		if !bytes.Equal(res.ia, ia) {
			res.err = fmt.Errorf("DATA: initial payload differs (%d bytes sent, %d read)", len(ia), len(res.ia))
		}
	}
	return ini, res, ""
}

func judge(k int, cs caseSpec) {
	ini, res, inc := runCase(cs)
	run.Eval(1)
	if inc != "" {
		run.Inconclusive(inc)
		return
	}
	rep := map[string]any{"case": cs, "initiator_err": fmt.Sprint(ini.err), "responder_err": fmt.Sprint(res.err)}
	if ini.panicked != "" || res.panicked != "" {
		run.Violation("panic:"+cs.Kind, fmt.Sprintf("case %d %+v: panic ini=%q res=%q", k, cs, ini.panicked, res.panicked), rep)
		return
	}
	isData := func(e error) bool { return e != nil && len(e.Error()) > 5 && e.Error()[:5] == "DATA:" }
	if isData(ini.err) || isData(res.err) {
		run.Violation("stream-bytes:"+cs.Kind, fmt.Sprintf("case %d %+v: %v / %v", k, cs, ini.err, res.err), rep)
		return
	}
	okI, okR := ini.err == nil, res.err == nil
	// expected outcome from the specification
	sel := selectFn(cs.SelMode)(cs.Provide)
	legalSel := sel != 0 && sel&(sel-1) == 0 && sel&cs.Provide != 0
	shouldSucceed := cs.SKeyOK && !cs.CorruptVC && cs.Provide != 0 && legalSel
	if okI != okR {
		run.Violation("one-sided:"+cs.Kind, fmt.Sprintf("case %d %+v: initiator err=%v, responder err=%v (one side completed, the other failed)", k, cs, ini.err, res.err), rep)
		return
	}
	if okI && !shouldSucceed {
		why := "illegal cipher selection"
		if !cs.SKeyOK {
			why = "wrong key"
		}
		run.Violation("completed-but-must-fail:"+cs.Kind, fmt.Sprintf("case %d %+v: handshake completed although it must fail (%s)", k, cs, why), rep)
		return
	}
	if !okI && shouldSucceed {
		run.Violation(fmt.Sprintf("legal-handshake-failed:%s", cs.Kind), fmt.Sprintf("case %d %+v: legal handshake failed: initiator %v, responder %v", k, cs, ini.err, res.err), rep)
		return
	}
	if okI {
		if ini.selected != res.selected || ini.selected != sel || ini.selected&cs.Provide == 0 {
			run.Violation("cipher-disagreement:"+cs.Kind, fmt.Sprintf("case %d %+v: initiator says %d, responder says %d, offer %#x", k, cs, ini.selected, res.selected, cs.Provide), rep)
			return
		}
		run.Count("completed_"+cs.Kind, 1)
	} else {
		run.Count("failed_both_"+cs.Kind, 1)
	}
	run.Distinct(vx.Hash(cs.Kind, cs.SKeyOK, cs.Provide, cs.SelMode, cs.Pad1, cs.Pad2, cs.IALen, cs.ModeA, cs.ModeB, cs.CorruptVC))
	if k%5000 == 1 {
		run.Sample(map[string]any{"case": cs, "outcome_ok": okI, "selected": ini.selected})
	}
}

// ---- policy matrix at btconn

type policyResult struct{ what string }

func policyAccept(k int, offer string, force bool) {
	// rain accepts; reference endpoint dials with: plaintext | mse-plain | mse-rc4 | mse-both
	r := run.Rand("policy", k)
	var ih, id, pid [20]byte
	r.Read(ih[:])
	r.Read(id[:])
	r.Read(pid[:])
	ext := refwire.ReservedBits(true, true, false)
	a, b := memconn.Pipe()
	defer a.Close()
	defer b.Close()
	a.SetDeadline(time.Now().Add(30 * time.Second))
	b.SetDeadline(time.Now().Add(30 * time.Second))
	type accRes struct {
		cipher mse.CryptoMethod
		err    error
		conn   net.Conn
	}
	resC := make(chan accRes, 1)
	go func() {
		conn, cipher, _, _, _, err := btconn.Accept(a, 20*time.Second, func(h [20]byte) []byte {
			if h == mse.HashSKey(ih[:]) {
				return ih[:]
			}
			return nil
		}, force, func(h [20]byte) bool { return h == ih }, ext, id)
		if err != nil {
			a.Close() // what the client does with a connection whose handshake failed
		}
		resC <- accRes{cipher, err, conn}
	}()
	hs := refwire.Handshake(ext, ih, pid)
	var stream io.ReadWriter = b
	var refSel uint32
	var refErr error
	switch offer {
	case "plaintext":
		_, refErr = b.Write(hs)
	default:
		prov := map[string]uint32{"mse-plain": 1, "mse-rc4": 2, "mse-both": 3}[offer]
		var rc *refmse.Conn
		rc, refErr = refmse.Initiate(b, refmse.Opts{R: r, Pad1: r.Intn(512), Pad2: r.Intn(512), Provide: prov, IA: hs, SKey: ih[:]})
		if refErr == nil {
			stream = rc
			refSel = rc.Selected
		}
	}
	var reply []byte
	if refErr == nil {
		reply = make([]byte, 68)
		_, refErr = io.ReadFull(stream, reply)
	}
	if refErr != nil {
		b.Close()
	}
	ar := <-resC
	run.Eval(1)
	rep := map[string]any{"offer": offer, "force_incoming": force, "accept_err": fmt.Sprint(ar.err), "ref_err": fmt.Sprint(refErr)}
	encrypted := offer != "plaintext" && refSel == 2
	if ar.err == nil {
		if force && !encrypted {
			run.Violation("forced-incoming-unencrypted", fmt.Sprintf("policy %d: Accept with forced encryption completed a connection offered as %s (selected %d)", k, offer, refSel), rep)
			return
		}
		if refErr != nil {
			run.Violation("accept-one-sided", fmt.Sprintf("policy %d: Accept succeeded but the dialling side failed: %v", k, refErr), rep)
			return
		}
		want := refwire.Handshake(ext, ih, id)
		if !bytes.Equal(reply, want) {
			run.Violation("accept-stream-bytes", fmt.Sprintf("policy %d (%s): handshake reply read through the negotiated stream differs from the expected bytes", k, offer), rep)
			return
		}
		if (ar.cipher == mse.RC4) != encrypted {
			run.Violation("accept-cipher-report", fmt.Sprintf("policy %d (%s): Accept reports cipher %v, stream encrypted=%v", k, offer, ar.cipher, encrypted), rep)
			return
		}
		run.Count("accept_ok_"+offer, 1)
	} else {
		mustWork := !force || offer == "mse-rc4" || offer == "mse-both"
		if mustWork {
			run.Violation("accept-refused-legal:"+offer, fmt.Sprintf("policy %d: Accept(force=%v) refused a %s connection: %v", k, force, offer, ar.err), rep)
			return
		}
		run.Count("accept_refused_"+offer, 1)
	}
	run.Distinct(vx.Hash("accept", offer, force, k%7))
}

func policyDial(k int, listener string, enable, force bool) {
	// rain dials; reference listener behaves as: plaintext-only | mse-rc4 | mse-plain | mse-cheat-plain
	r := run.Rand("pdial", k)
	var ih, id, pid [20]byte
	r.Read(ih[:])
	r.Read(id[:])
	r.Read(pid[:])
	ext := refwire.ReservedBits(true, true, false)
	ln, err := net.Listen("tcp", "127.0.0.1:0")
	if err != nil {
		run.Inconclusive("listen " + err.Error())
		return
	}
	defer ln.Close()
	var plainConns, mseConns, plainAfterHandshake, refSelected atomic.Int32
	var wg sync.WaitGroup
	go func() {
		for {
			c, err := ln.Accept()
			if err != nil {
				return
			}
			wg.Add(1)
			go func(c net.Conn) {
				defer wg.Done()
				defer c.Close()
				c.SetDeadline(time.Now().Add(20 * time.Second))
				first := make([]byte, 20)
				if _, err := io.ReadFull(c, first); err != nil {
					return
				}
				if first[0] == 19 && string(first[1:20]) == "BitTorrent protocol" {
					plainConns.Add(1)
					rest := make([]byte, 48)
					if _, err := io.ReadFull(c, rest); err != nil {
						return
					}
					c.Write(refwire.Handshake(ext, ih, pid))
					plainAfterHandshake.Add(1)
					time.Sleep(100 * time.Millisecond)
					return
				}
				mseConns.Add(1)
				if listener == "plaintext-only" {
					return // does not speak MSE: drop
				}
				rr := rand.New(rand.NewSource(int64(k)))
				mode := map[string]int{"mse-rc4": 0, "mse-plain": 1, "mse-cheat-plain": 5}[listener]
				sel := selectFn(mode)
				if listener == "mse-cheat-plain" {
					sel = func(p uint32) uint32 { return 1 } // selects plaintext even if not offered
				}
				rc, ia, err := refmse.Respond(&prefixed{Conn: c, pre: first}, refmse.Opts{R: rr, Pad1: rr.Intn(512), Pad2: rr.Intn(512), SKeys: [][]byte{ih[:]}, Select: sel})
				if err != nil {
					return
				}
				refSelected.Store(int32(rc.Selected))
				if len(ia) != 68 {
					more := make([]byte, 68-len(ia))
					if _, err := io.ReadFull(rc, more); err != nil {
						return
					}
				}
				rc.Write(refwire.Handshake(ext, ih, pid))
				time.Sleep(100 * time.Millisecond)
			}(c)
		}
	}()
	conn, cipher, _, gid, derr := btconn.Dial(ln.Addr(), 5*time.Second, 10*time.Second, enable, force, ext, ih, id, make(chan struct{}))
	if derr == nil {
		conn.Close()
	}
	ln.Close()
	wg.Wait()
	run.Eval(1)
	rep := map[string]any{"listener": listener, "enable_outgoing_encryption": enable, "force_outgoing": force, "dial_err": fmt.Sprint(derr), "plaintext_conns": plainConns.Load(), "mse_conns": mseConns.Load()}
	if force && enable && plainConns.Load() > 0 {
		run.Violation("forced-outgoing-plaintext-attempt", fmt.Sprintf("pdial %d: forced outgoing encryption, yet %d plaintext handshake(s) reached the %s listener", k, plainConns.Load(), listener), rep)
		return
	}
	if derr == nil {
		if gid != pid {
			run.Violation("dial-peer-id", fmt.Sprintf("pdial %d: Dial returned a peer id the listener never sent", k), rep)
			return
		}
		encrypted := cipher == mse.RC4
		if force && enable && !(encrypted && refSelected.Load() == 2) {
			run.Violation("forced-outgoing-unencrypted", fmt.Sprintf("pdial %d: forced outgoing encryption but Dial completed with cipher %v on a %s listener", k, cipher, listener), rep)
			return
		}
		if listener == "mse-cheat-plain" && enable && force {
			run.Violation("dial-accepted-unoffered-cipher", fmt.Sprintf("pdial %d: listener selected a cipher that was not offered and Dial completed", k), rep)
			return
		}
		run.Count("dial_ok_"+listener, 1)
	} else {
		mustWork := false
		switch listener {
		case "plaintext-only":
			mustWork = !enable || !force
		case "mse-rc4":
			mustWork = true
		case "mse-plain": // prefers plaintext but takes RC4 when it is the only offer
			mustWork = true
		case "mse-cheat-plain":
			mustWork = !(enable && force)
		}
		if mustWork {
			run.Violation("dial-failed-legal:"+listener, fmt.Sprintf("pdial %d: Dial(enable=%v,force=%v) to a %s listener failed: %v", k, enable, force, listener, derr), rep)
			return
		}
		run.Count("dial_refused_"+listener, 1)
	}
	run.Distinct(vx.Hash("dial", listener, enable, force, k%7))
}

type prefixed struct {
	net.Conn
	pre []byte
}

func (p *prefixed) Read(b []byte) (int, error) {
	if len(p.pre) > 0 {
		n := copy(b, p.pre)
		p.pre = p.pre[n:]
		return n, nil
	}
	return p.Conn.Read(b)
}

func main() {
	run = vx.Begin("C12", "exploration",
		"handshake pairs with both ends observed: (a) each of the four pads enumerated over all values 0..511 by the reference side x transport chunkings x initial-payload sizes {0,1,68,65535}; (b) PRNG rain<->rain and mixed pairs over keys (right/wrong), offers {1,2,3,4,6,0x80000002,...}, responder selection behaviours (honest, prefer-plain, not-offered, zero, multi-bit), corrupt VC; (c) btconn Accept/Dial policy matrix against reference endpoints; (d) real sessions with each consistent setting of DisableOutgoingEncryption / ForceOutgoingEncryption / ForceIncomingEncryption: first bytes of every outgoing connection recorded by raw listeners (incl. the retry and a redial), a raw client offering the plaintext handshake to the session's port. distinct = distinct case parameter tuples judged")
	logger.Disable()
	vx.StartCanary()
	var cases []caseSpec
	var padVals []int
	for i := 0; i < 512; i++ {
		padVals = append(padVals, i)
	}
	run.SetExhaustive(true) // each of the four pads takes every value 0..511 (the other pad of the same side is PRNG)
	chunkModes := run.N(3, 6)
	iaSizes := []int{0, 1, 68, 65535}
	k := 0
	for _, kind := range []string{"ref-init", "ref-resp"} {
		for which := 0; which < 2; which++ {
			for _, pv := range padVals {
				for m := 0; m < chunkModes; m++ {
					r := run.Rand("padcase", k)
					cs := caseSpec{Kind: kind, SKeyOK: true, Provide: []uint32{2, 3, 1}[r.Intn(3)], SelMode: r.Intn(2), ModeA: m, ModeB: (m + k) % 6, Seed: r.Int63()}
					cs.IALen = iaSizes[k%4]
					if run.Quick() && cs.IALen == 65535 && k%8 != 3 {
						cs.IALen = 68
					}
					other := r.Intn(512)
					if which == 0 {
						cs.Pad1, cs.Pad2 = pv, other
					} else {
						cs.Pad1, cs.Pad2 = other, pv
					}
					cases = append(cases, cs)
					k++
				}
			}
		}
	}
	nPad := len(cases)
	run.Set("pad_enumeration_cases", nPad)
	run.Set("pad_values_per_pad", len(padVals))
	nRand := run.N(4000, 100000)
	for i := 0; i < nRand; i++ {
		r := run.Rand("rand", i)
		cs := caseSpec{Kind: []string{"rain-rain", "rain-rain", "ref-init", "ref-resp"}[r.Intn(4)], SKeyOK: r.Intn(6) != 0,
			Provide: []uint32{1, 2, 3, 3, 2, 4, 6, 0x80000002, 0, 7}[r.Intn(10)], SelMode: []int{0, 0, 1, 1, 2, 3, 4}[r.Intn(7)],
			Pad1: r.Intn(512), Pad2: r.Intn(512), IALen: []int{0, 1, 68, 1000, r.Intn(65536), 65535}[r.Intn(6)], ModeA: r.Intn(6), ModeB: r.Intn(6), Seed: r.Int63()}
		if cs.Kind == "ref-init" && r.Intn(8) == 0 {
			cs.CorruptVC = true
		}
		if cs.Provide == 0 && cs.Kind != "ref-init" {
			cs.Provide = 3 // rain's own initiator refuses an empty offer before sending anything
		}
		cases = append(cases, cs)
	}
	vx.Parallel(len(cases), runtime.NumCPU()*2, func(k int) {
		if run.Enough() {
			return
		}
		judge(k, cases[k])
	})
	// policy matrix
	reps := run.N(6, 200)
	type pa struct {
		offer string
		force bool
	}
	var pas []pa
	for _, o := range []string{"plaintext", "mse-plain", "mse-rc4", "mse-both"} {
		for _, f := range []bool{false, true} {
			for i := 0; i < reps; i++ {
				pas = append(pas, pa{o, f})
			}
		}
	}
	vx.Parallel(len(pas), 16, func(k int) {
		pt, ok := vx.Try(func() { policyAccept(k, pas[k].offer, pas[k].force) })
		if !ok {
			run.Violation("panic:accept", fmt.Sprintf("policy accept %d: panic %s", k, pt), nil)
		}
	})
	type pd struct {
		l      string
		en, fo bool
	}
	var pds []pd
	for _, l := range []string{"plaintext-only", "mse-rc4", "mse-plain", "mse-cheat-plain"} {
		for _, ef := range [][2]bool{{false, false}, {true, false}, {true, true}} { // disable+force is not a consistent setting
			for i := 0; i < reps; i++ {
				pds = append(pds, pd{l, ef[0], ef[1]})
			}
		}
	}
	vx.Parallel(len(pds), 16, func(k int) {
		pt, ok := vx.Try(func() { policyDial(k, pds[k].l, pds[k].en, pds[k].fo) })
		if !ok {
			run.Violation("panic:dial", fmt.Sprintf("policy dial %d: panic %s", k, pt), nil)
		}
	})
	// session level: what a real Session with the Force/Disable flags puts on the wire
	type sp struct{ dis, fo, fi bool }
	var sps []sp
	for i := 0; i < run.N(2, 12); i++ {
		sps = append(sps, sp{false, true, true}, sp{false, true, false}, sp{false, false, true}, sp{false, false, false}, sp{true, false, false})
	}
	vx.Parallel(len(sps), 10, func(k int) { sessionPolicy(k, sps[k].dis, sps[k].fo, sps[k].fi) })
	run.Assume("reference MSE written from the MSE/PE specification (own DH, SHA-1 key derivation, RC4-drop-1024); rain's own pads are random and not controllable from outside: their 0..511 range is exercised by repetition, the reference side's pads by enumeration")
	run.Finish(300)
}
