// Package evlog is the process-wide event log of the harness: one atomic
// sequence counter plus the monotonic clock, shared by every recorder (storage,
// scripted peers, trackers, API wrappers) so that events can be totally ordered.
package evlog

import (
	"sync"
	"sync/atomic"
	"time"
)

var seq atomic.Int64

// Next returns the next sequence number.
func Next() int64 { return seq.Add(1) }

type Event struct {
	Seq  int64
	At   time.Duration // since process start (monotonic)
	Src  string        // recorder name (peer name, "storage", "api", ...)
	Kind string
	A, B, C int64
	S    string
	Data []byte
}

var start = time.Now()

type Log struct {
	mu sync.Mutex
	ev []Event
}

func (l *Log) Add(src, kind string, a, b, c int64, s string, data []byte) int64 {
	e := Event{Seq: Next(), At: time.Since(start), Src: src, Kind: kind, A: a, B: b, C: c, S: s, Data: data}
	l.mu.Lock()
	l.ev = append(l.ev, e)
	l.mu.Unlock()
	return e.Seq
}

// AddSeq stores an event whose sequence number was drawn earlier (call entry).
func (l *Log) AddEvent(e Event) {
	if e.Seq == 0 {
		e.Seq = Next()
	}
	if e.At == 0 {
		e.At = time.Since(start)
	}
	l.mu.Lock()
	l.ev = append(l.ev, e)
	l.mu.Unlock()
}

func (l *Log) Snapshot() []Event {
	l.mu.Lock()
	defer l.mu.Unlock()
	return append([]Event(nil), l.ev...)
}

func (l *Log) Len() int { l.mu.Lock(); defer l.mu.Unlock(); return len(l.ev) }
