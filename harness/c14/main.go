// C14: session registry and resume data. (A) resume records written and read
// back through the resumer; (B) sequential histories of registry operations
// against a model, with the conservation law for ports, the database inspected
// after every close, reopen and compaction; (C) concurrent Add/Remove/List/
// PortsAvailable histories recorded at the API boundary and checked for
// linearizability with porcupine.
package main

import (
	"bytes"
	"encoding/hex"
	"encoding/json"
	"fmt"
	"math/rand"
	"os"
	"path/filepath"
	"reflect"
	"sort"
	"strconv"
	"strings"
	"sync"
	"sync/atomic"
	"time"
	"unicode/utf8"

	"github.com/anishathalye/porcupine"
	"github.com/cenkalti/rain/v2/internal/resumer/boltdbresumer"
	"github.com/cenkalti/rain/v2/internal/verifhook"
	"github.com/cenkalti/rain/v2/torrent"
	"github.com/cenkalti/rain/v2/verifx/benc"
	"github.com/cenkalti/rain/v2/verifx/gen"
	"github.com/cenkalti/rain/v2/verifx/memstore"
	"github.com/cenkalti/rain/v2/verifx/sess"
	"github.com/cenkalti/rain/v2/verifx/vx"
	"go.etcd.io/bbolt"
)

var run *vx.Run

var hostileStrings = []string{"", "plain", "with space", "ünïcödé", "日本語", "a\x00b", "\xff\xfe", "quote\"s", "back\\slash", "new\nline", strings.Repeat("x", 3000), "[\"json\"]", "null", "%41", "<tag>"}

func hs(r *rand.Rand) string { return hostileStrings[r.Intn(len(hostileStrings))] }

// ---------------------------------------------------------------- (A) resumer round trip

func resumerCase(k int) {
	r := run.Rand("resumer", k)
	dir := filepath.Join(run.Work, fmt.Sprintf("rs%d", k))
	os.MkdirAll(dir, 0o755)
	defer os.RemoveAll(dir)
	db, err := bbolt.Open(filepath.Join(dir, "r.db"), 0o600, nil)
	if err != nil {
		run.Inconclusive("bbolt: " + err.Error())
		return
	}
	defer db.Close()
	res, err := boltdbresumer.New(db, []byte("torrents"))
	if err != nil {
		run.Inconclusive("resumer: " + err.Error())
		return
	}
	run.Eval(1)
	spec := &boltdbresumer.Spec{
		InfoHash: make([]byte, 20), Port: r.Intn(65536), Name: hs(r),
		AddedAt:         time.Unix(int64(r.Intn(2000000000)), 0).UTC(),
		BytesDownloaded: []int64{0, 1, 1 << 40, 1<<63 - 1}[r.Intn(4)], BytesUploaded: r.Int63(), BytesWasted: int64(r.Intn(1000)),
		SeededFor: time.Duration(r.Int63n(int64(1000 * time.Hour))), Started: r.Intn(2) == 0, StopAfterDownload: r.Intn(2) == 0,
		StopAfterMetadata: r.Intn(2) == 0, CompleteCmdRun: r.Intn(2) == 0, Sequential: r.Intn(2) == 0, Version: 1 + r.Intn(3),
	}
	r.Read(spec.InfoHash)
	for i := r.Intn(4); i > 0; i-- {
		var tier []string
		for j := 1 + r.Intn(3); j > 0; j-- {
			tier = append(tier, "http://"+hs(r)+"/announce")
		}
		spec.Trackers = append(spec.Trackers, tier)
	}
	for i := r.Intn(3); i > 0; i-- {
		spec.URLList = append(spec.URLList, "http://web/"+hs(r))
	}
	for i := r.Intn(3); i > 0; i-- {
		spec.FixedPeers = append(spec.FixedPeers, hs(r)+":6881")
	}
	spec.Info = make([]byte, r.Intn(5000))
	r.Read(spec.Info)
	spec.Bitfield = make([]byte, r.Intn(300))
	r.Read(spec.Bitfield)
	id := []string{"id", "id with space", "ü", strings.Repeat("i", 200), "a/b", "0"}[r.Intn(6)]
	if err := res.Write(id, spec); err != nil {
		run.Violation("resumer-write-error", fmt.Sprintf("resumer %d: Write failed: %v", k, err), nil)
		return
	}
	got, err := res.Read(id)
	if err != nil {
		run.Violation("resumer-read-error", fmt.Sprintf("resumer %d: Read of a record just written failed: %v", k, err), nil)
		return
	}
	norm := func(s *boltdbresumer.Spec) boltdbresumer.Spec {
		c := *s
		if len(c.Trackers) == 0 {
			c.Trackers = nil
		}
		if len(c.URLList) == 0 {
			c.URLList = nil
		}
		if len(c.FixedPeers) == 0 {
			c.FixedPeers = nil
		}
		if len(c.Info) == 0 {
			c.Info = nil
		}
		if len(c.Bitfield) == 0 {
			c.Bitfield = nil
		}
		c.AddedAt = c.AddedAt.UTC()
		return c
	}
	a, b := norm(spec), norm(got)
	if !reflect.DeepEqual(a, b) {
		var diff []string
		va, vb := reflect.ValueOf(a), reflect.ValueOf(b)
		for i := 0; i < va.NumField(); i++ {
			if !reflect.DeepEqual(va.Field(i).Interface(), vb.Field(i).Interface()) {
				diff = append(diff, fmt.Sprintf("%s: wrote %.80v read %.80v", va.Type().Field(i).Name, va.Field(i).Interface(), vb.Field(i).Interface()))
			}
		}
		sig := "resume-value-differs:" + strings.Split(diff[0], ":")[0]
		if onlyInvalidUTF8Differs(a, b) {
			sig += ":string-with-invalid-utf8-in-json-list"
		}
		run.Violation(sig, fmt.Sprintf("resumer %d: %v", k, diff), nil)
		return
	}
	// partial updates
	bf := make([]byte, 1+r.Intn(50))
	r.Read(bf)
	res.WriteBitfield(id, bf)
	res.WriteStarted(id, !spec.Started)
	got, _ = res.Read(id)
	if got == nil || !bytes.Equal(got.Bitfield, bf) || got.Started == spec.Started {
		run.Violation("resume-partial-update", fmt.Sprintf("resumer %d: WriteBitfield/WriteStarted did not read back", k), nil)
		return
	}
	run.Count("resumer_roundtrips", 1)
	run.Distinct("resumer|" + vx.Hash(a.Name, a.Port, a.Trackers, a.BytesUploaded))
}

// what encoding/json makes of a string: every invalid byte becomes U+FFFD
func jsonLossy(s string) string {
	var b strings.Builder
	for i := 0; i < len(s); {
		r, n := utf8.DecodeRuneInString(s[i:])
		if r == utf8.RuneError && n == 1 {
			b.WriteRune(utf8.RuneError)
		} else {
			b.WriteString(s[i : i+n])
		}
		i += n
	}
	return b.String()
}

// the three JSON-encoded list fields are the only difference and they differ only in strings that are not valid UTF-8
func onlyInvalidUTF8Differs(a, b boltdbresumer.Spec) bool {
	flat := func(s boltdbresumer.Spec) []string {
		var o []string
		for _, t := range s.Trackers {
			o = append(o, "[")
			o = append(o, t...)
		}
		o = append(o, "|")
		o = append(o, s.URLList...)
		o = append(o, "|")
		o = append(o, s.FixedPeers...)
		return o
	}
	fa, fb := flat(a), flat(b)
	if len(fa) != len(fb) {
		return false
	}
	for i := range fa {
		if fa[i] != fb[i] && (utf8.ValidString(fa[i]) || jsonLossy(fa[i]) != fb[i]) {
			return false
		}
	}
	a.Trackers, a.URLList, a.FixedPeers = nil, nil, nil
	b.Trackers, b.URLList, b.FixedPeers = nil, nil, nil
	return reflect.DeepEqual(a, b)
}

// ---------------------------------------------------------------- (B) sequential histories

type mtor struct {
	id       string
	ih       [20]byte
	name     string
	port     int
	tiers    [][]string
	urls     []string
	magnet   bool
	started  bool
	down, up int64
	seq      bool
	sad, sam bool // stop after download / metadata
}

type seqEnv struct {
	k       int
	dir     string
	prov    *memstore.Provider
	s       *torrent.Session
	cfg     torrent.Config
	model   map[string]*mtor
	log     []string
	nports  int
	viol    bool
	nextTor int
}

func (e *seqEnv) bad(sig, f string, a ...any) {
	if e.viol {
		return
	}
	e.viol = true
	tail := e.log
	if len(tail) > 40 {
		tail = tail[len(tail)-40:]
	}
	run.Violation(sig, fmt.Sprintf("history %d: ", e.k)+fmt.Sprintf(f, a...), map[string]any{"log_tail": tail})
}

func (e *seqEnv) open() bool {
	s, cfg, err := sess.New(sess.Opts{Dir: e.dir, Storage: e.prov, Mutate: func(c *torrent.Config) {
		if e.cfg.Host != "" {
			c.Host, c.PortBegin, c.PortEnd = e.cfg.Host, e.cfg.PortBegin, e.cfg.PortEnd
		} else {
			c.PortEnd = c.PortBegin + uint16(e.nports)
		}
		c.ResumeWriteInterval = 20 * time.Millisecond
	}})
	if err != nil {
		e.bad("session-open-failed", "NewSession on the existing database failed: %v", err)
		return false
	}
	e.s, e.cfg = s, cfg
	return true
}

func tierSet(t [][]string) []string {
	var out []string
	for _, tier := range t {
		c := append([]string(nil), tier...)
		sort.Strings(c)
		if len(c) > 0 {
			out = append(out, strings.Join(c, "|"))
		}
	}
	sort.Strings(out)
	return out
}

// trackers and web seeds as exported by the client (works for stopped torrents too)
func exported(t *torrent.Torrent, magnet bool) (tiers [][]string, urls []string, ok bool) {
	if magnet {
		link, err := t.Magnet()
		if err != nil {
			return nil, nil, false
		}
		for _, kv := range strings.Split(strings.TrimPrefix(link, "magnet:?"), "&") {
			k, v, _ := strings.Cut(kv, "=")
			if k == "tr" {
				u, _ := urlUnescape(v)
				tiers = append(tiers, []string{u})
			}
		}
		return tiers, nil, true
	}
	b, err := t.Torrent()
	if err != nil {
		return nil, nil, false
	}
	v, _, derr := benc.Decode(b)
	d, _ := v.(benc.Dict)
	if derr != nil {
		return nil, nil, false
	}
	if al, ok := d.Get("announce-list"); ok {
		for _, tr := range al.(benc.List) {
			var tier []string
			for _, u := range tr.(benc.List) {
				tier = append(tier, u.(string))
			}
			tiers = append(tiers, tier)
		}
	} else if a, ok := d.Get("announce"); ok {
		tiers = [][]string{{a.(string)}}
	}
	if ul, ok := d.Get("url-list"); ok {
		switch x := ul.(type) {
		case string:
			urls = []string{x}
		case benc.List:
			for _, u := range x {
				urls = append(urls, u.(string))
			}
		}
	}
	return tiers, urls, true
}

func urlUnescape(s string) (string, error) {
	var b strings.Builder
	for i := 0; i < len(s); i++ {
		if s[i] == '%' && i+2 < len(s)+0 && i+3 <= len(s) {
			v, err := strconv.ParseUint(s[i+1:i+3], 16, 8)
			if err == nil {
				b.WriteByte(byte(v))
				i += 2
				continue
			}
		}
		if s[i] == '+' {
			b.WriteByte(' ')
			continue
		}
		b.WriteByte(s[i])
	}
	return b.String(), nil
}

// compare the live session with the model
func (e *seqEnv) check(when string, afterReopen bool) {
	if e.viol {
		return
	}
	ts := e.s.ListTorrents()
	ids := map[string]bool{}
	ports := map[int]string{}
	for _, t := range ts {
		id := t.ID()
		if ids[id] {
			e.bad("duplicate-id-in-session", "%s: ListTorrents returns id %q twice", when, id)
			return
		}
		ids[id] = true
		if o, dup := ports[t.Port()]; dup {
			e.bad("two-torrents-one-port", "%s: torrents %q and %q both own port %d", when, o, id, t.Port())
			return
		}
		ports[t.Port()] = id
		if t.Port() < int(e.cfg.PortBegin) || t.Port() >= int(e.cfg.PortEnd) {
			e.bad("port-outside-range", "%s: torrent %q has port %d outside [%d,%d)", when, id, t.Port(), e.cfg.PortBegin, e.cfg.PortEnd)
			return
		}
	}
	if len(ts) != len(e.model) {
		e.bad("registry-differs-from-history", "%s: session holds %d torrents %v, the history implies %d", when, len(ts), keys(ids), len(e.model))
		return
	}
	for id, m := range e.model {
		t := e.s.GetTorrent(id)
		if t == nil {
			e.bad("registry-differs-from-history", "%s: torrent %q is missing from the session", when, id)
			return
		}
		if [20]byte(t.InfoHash()) != m.ih {
			e.bad("field-differs:info-hash", "%s: torrent %q info-hash %x, expected %x", when, id, t.InfoHash(), m.ih)
			return
		}
		if t.Name() != m.name {
			e.bad("field-differs:name", "%s: torrent %q name %q, expected %q", when, id, t.Name(), m.name)
			return
		}
		if m.port != 0 && t.Port() != m.port {
			e.bad("field-differs:port", "%s: torrent %q port %d, expected %d", when, id, t.Port(), m.port)
			return
		}
		m.port = t.Port()
		st := t.Stats() // also a barrier: AddTracker is applied by the torrent's event loop
		if tiers, urls, ok := exported(t, m.magnet); ok {
			if !reflect.DeepEqual(tierSet(tiers), tierSet(m.tiers)) {
				e.bad("field-differs:trackers", "%s: torrent %q trackers %v, expected %v", when, id, tiers, m.tiers)
				return
			}
			if !m.magnet && !reflect.DeepEqual(sortedStrings(urls), sortedStrings(m.urls)) {
				e.bad("field-differs:webseeds", "%s: torrent %q web seeds %v, expected %v", when, id, urls, m.urls)
				return
			}
		}
		if afterReopen {
			if m.started != (st.Status != torrent.Stopped) {
				// a started torrent without trackers/peers stays in Downloading / DownloadingMetadata: never Stopped unless error
				if !(m.started && st.Error != nil) {
					e.bad("field-differs:started", "%s: torrent %q started flag was %v, status after reopen is %s", when, id, m.started, st.Status)
					return
				}
			}
			if st.Bytes.Downloaded != m.down || st.Bytes.Uploaded != m.up {
				e.bad("field-differs:counters", "%s: torrent %q counters down/up %d/%d, stored %d/%d", when, id, st.Bytes.Downloaded, st.Bytes.Uploaded, m.down, m.up)
				return
			}
		}
	}
	avail := e.s.Stats().PortsAvailable
	if avail+len(e.model) != e.nports {
		e.bad("port-conservation", "%s: %d ports available + %d live torrents != range of %d", when, avail, len(e.model), e.nports)
		return
	}
}

func keys(m map[string]bool) []string {
	var o []string
	for k := range m {
		o = append(o, k)
	}
	sort.Strings(o)
	return o
}

func sortedStrings(a []string) []string {
	b := append([]string{}, a...)
	sort.Strings(b)
	return b
}

// inspect a closed database file
func (e *seqEnv) checkDB(path, when string, compacted bool) {
	if e.viol {
		return
	}
	db, err := bbolt.Open(path, 0o600, &bbolt.Options{ReadOnly: true, Timeout: 2 * time.Second})
	if err != nil {
		e.bad("db-unreadable", "%s: database cannot be opened: %v", when, err)
		return
	}
	defer db.Close()
	db.View(func(tx *bbolt.Tx) error {
		if err := <-tx.Check(); err != nil {
			e.bad("db-check-failed", "%s: bbolt consistency check: %v", when, err)
			return nil
		}
		tb := tx.Bucket([]byte("torrents"))
		if tb == nil {
			e.bad("db-no-bucket", "%s: no torrents bucket", when)
			return nil
		}
		got := map[string]bool{}
		tb.ForEach(func(k, v []byte) error { got[string(k)] = true; return nil })
		want := map[string]bool{}
		for id, m := range e.model {
			if compacted && m.magnet {
				continue // compaction keeps only torrents that have metadata
			}
			want[id] = true
		}
		if !reflect.DeepEqual(keys(got), keys(want)) {
			e.bad("db-records-differ-from-registry", "%s: database holds records %v, live torrents are %v", when, keys(got), keys(want))
			return nil
		}
		for id := range want {
			m := e.model[id]
			b := tb.Bucket([]byte(id))
			if !bytes.Equal(b.Get([]byte("info_hash")), m.ih[:]) {
				e.bad("db-field:info_hash", "%s: record %q info_hash %x, expected %x", when, id, b.Get([]byte("info_hash")), m.ih)
				return nil
			}
			if p, _ := strconv.Atoi(string(b.Get([]byte("port")))); p != m.port {
				e.bad("db-field:port", "%s: record %q port %s, torrent owns %d", when, id, b.Get([]byte("port")), m.port)
				return nil
			}
			if string(b.Get([]byte("name"))) != m.name {
				e.bad("db-field:name", "%s: record %q name %q, expected %q", when, id, b.Get([]byte("name")), m.name)
				return nil
			}
			var tiers [][]string
			json.Unmarshal(b.Get([]byte("trackers")), &tiers)
			if !reflect.DeepEqual(tierSet(tiers), tierSet(m.tiers)) {
				e.bad("db-field:trackers", "%s: record %q trackers %v, expected %v", when, id, tiers, m.tiers)
				return nil
			}
			var urls []string
			json.Unmarshal(b.Get([]byte("url_list")), &urls)
			if !reflect.DeepEqual(sortedStrings(urls), sortedStrings(m.urls)) {
				e.bad("db-field:url_list", "%s: record %q web seeds %v, expected %v", when, id, urls, m.urls)
				return nil
			}
			if st, _ := strconv.ParseBool(string(b.Get([]byte("started")))); st != m.started {
				e.bad("db-field:started", "%s: record %q started=%s, expected %v", when, id, b.Get([]byte("started")), m.started)
				return nil
			}
			if v, _ := strconv.ParseBool(string(b.Get([]byte("stop_after_download")))); v != m.sad {
				e.bad("db-field:stop_after_download", "%s: record %q stop_after_download=%s, expected %v", when, id, b.Get([]byte("stop_after_download")), m.sad)
				return nil
			}
			if v, _ := strconv.ParseBool(string(b.Get([]byte("stop_after_metadata")))); v != m.sam {
				e.bad("db-field:stop_after_metadata", "%s: record %q stop_after_metadata=%s, expected %v", when, id, b.Get([]byte("stop_after_metadata")), m.sam)
				return nil
			}
			if sq, _ := strconv.ParseBool(string(b.Get([]byte("sequential")))); sq != m.seq {
				e.bad("db-field:sequential", "%s: record %q sequential=%s, expected %v", when, id, b.Get([]byte("sequential")), m.seq)
				return nil
			}
		}
		return nil
	})
}

func seqHistory(k int) {
	label := fmt.Sprintf("seq-%d", k)
	run.CaseStart(label)
	seqHistoryBody(k)
	run.CaseEnd(label) // not deferred: a panic must leave the case open
}

func seqHistoryBody(k int) {
	r := run.Rand("seq", k)
	e := &seqEnv{k: k, model: map[string]*mtor{}, nports: []int{3, 5, 40}[r.Intn(3)]}
	e.dir = filepath.Join(run.Work, fmt.Sprintf("q%d", k))
	os.MkdirAll(e.dir, 0o755)
	defer os.RemoveAll(e.dir)
	e.prov = memstore.NewProvider(filepath.Join(e.dir, "mem"))
	if !e.open() {
		return
	}
	run.Eval(1)
	mkTorrent := func() ([]byte, *mtor) {
		e.nextTor++
		l := &gen.Layout{Name: fmt.Sprintf("n%d-%s", e.nextTor, []string{"x", "with space", "ü", "q\"q"}[r.Intn(4)]), PieceLen: 16384, Seed: int64(k*1000 + e.nextTor), Single: true, Files: []gen.FileSpec{{Length: int64(1000 + r.Intn(40000))}}}
		info := l.InfoBytes(l.Truth())
		m := &mtor{ih: gen.InfoHash(info), name: l.Name}
		for i := r.Intn(3); i > 0; i-- {
			var tier []string
			for j := 1 + r.Intn(2); j > 0; j-- {
				tier = append(tier, fmt.Sprintf("http://127.0.0.1:1/%d/%d/announce", e.nextTor, r.Intn(1000)))
			}
			m.tiers = append(m.tiers, tier)
		}
		for i := r.Intn(3); i > 0; i-- {
			m.urls = append(m.urls, fmt.Sprintf("http://127.0.0.1:1/ws%d/", r.Intn(1000)))
		}
		return gen.TorrentBytes(info, m.tiers, m.urls), m
	}
	nops := 10 + r.Intn(25)
	for op := 0; op < nops && !e.viol; op++ {
		var ids []string
		for id := range e.model {
			ids = append(ids, id)
		}
		sort.Strings(ids)
		pick := func() string { return ids[r.Intn(len(ids))] }
		c := r.Intn(100)
		switch {
		case c < 25: // add torrent
			tb, m := mkTorrent()
			opt := &torrent.AddTorrentOptions{Stopped: r.Intn(2) == 0, Sequential: r.Intn(3) == 0, StopAfterDownload: r.Intn(4) == 0, StopAfterMetadata: r.Intn(4) == 0}
			if r.Intn(2) == 0 {
				opt.ID = fmt.Sprintf("explicit-%d", r.Intn(6))
			}
			t, err := e.s.AddTorrent(bytes.NewReader(tb), opt)
			_, dup := e.model[opt.ID]
			full := len(e.model) >= e.nports
			e.log = append(e.log, fmt.Sprintf("add id=%q stopped=%v -> err=%v", opt.ID, opt.Stopped, err))
			switch {
			case err == nil && (dup && opt.ID != ""):
				e.bad("duplicate-id-accepted", "AddTorrent with id %q succeeded although a torrent with this id is live", opt.ID)
			case err == nil && full:
				e.bad("add-beyond-port-range", "AddTorrent succeeded although all %d ports are owned", e.nports)
			case err != nil && !dup && !full:
				e.bad("valid-add-failed", "AddTorrent failed: %v", err)
			case err == nil:
				m.id, m.started, m.seq, m.sad, m.sam = t.ID(), !opt.Stopped, opt.Sequential, opt.StopAfterDownload, opt.StopAfterMetadata
				e.model[m.id] = m
			}
		case c < 33: // add magnet
			var ih [20]byte
			r.Read(ih[:])
			m := &mtor{ih: ih, magnet: true}
			m.name = fmt.Sprintf("mag%d", r.Intn(1000))
			tr := fmt.Sprintf("http://127.0.0.1:1/m%d/announce", r.Intn(1000))
			m.tiers = [][]string{{tr}}
			opt := &torrent.AddTorrentOptions{Stopped: true}
			t, err := e.s.AddURI("magnet:?xt=urn:btih:"+hex.EncodeToString(ih[:])+"&dn="+m.name+"&tr="+tr, opt)
			full := len(e.model) >= e.nports
			e.log = append(e.log, fmt.Sprintf("addmagnet -> err=%v", err))
			if err == nil && full {
				e.bad("add-beyond-port-range", "AddURI succeeded although all %d ports are owned", e.nports)
			} else if err != nil && !full {
				e.bad("valid-add-failed", "AddURI failed: %v", err)
			} else if err == nil {
				m.id = t.ID()
				e.model[m.id] = m
			}
		case c < 40: // failing add: bad input
			_, err := e.s.AddTorrent(strings.NewReader("garbage that is not bencode"), nil)
			e.log = append(e.log, fmt.Sprintf("add garbage -> err=%v", err))
			if err == nil {
				e.bad("garbage-accepted", "AddTorrent accepted garbage")
			}
		case c < 52 && len(ids) > 0:
			rid := pick()
			err := e.s.RemoveTorrent(rid, r.Intn(2) == 0)
			e.log = append(e.log, fmt.Sprintf("remove %q -> %v", rid, err))
			delete(e.model, rid)
		case c < 55:
			err := e.s.RemoveTorrent("no-such-id", false)
			e.log = append(e.log, fmt.Sprintf("remove unknown -> %v", err))
		case c < 63 && len(ids) > 0:
			sid := pick()
			e.s.GetTorrent(sid).Start()
			e.model[sid].started = true
			e.log = append(e.log, "start "+sid)
		case c < 71 && len(ids) > 0:
			sid := pick()
			e.s.GetTorrent(sid).Stop()
			e.model[sid].started = false
			e.log = append(e.log, "stop "+sid)
		case c < 78 && len(ids) > 0:
			sid := pick()
			tr := fmt.Sprintf("http://127.0.0.1:1/added%d/announce", r.Intn(1000))
			err := e.s.GetTorrent(sid).AddTracker(tr)
			e.log = append(e.log, fmt.Sprintf("addtracker %s -> %v", sid, err))
			if err == nil {
				e.model[sid].tiers = append(e.model[sid].tiers, []string{tr})
			}
		case c < 86: // compact
			out := filepath.Join(e.dir, fmt.Sprintf("compact%d.db", op))
			err := e.s.CompactDatabase(out)
			e.log = append(e.log, fmt.Sprintf("compact -> %v", err))
			if err != nil {
				e.bad("compact-error", "CompactDatabase failed: %v", err)
			} else {
				e.checkDB(out, "compacted database", true)
				if !e.viol {
					e.loadCompacted(out)
				}
			}
			os.Remove(out)
		default: // close + reopen, with counters planted into the records
			e.s.Close()
			e.log = append(e.log, "close")
			e.checkDB(filepath.Join(e.dir, "session.db"), "after Close", false)
			if e.viol {
				return
			}
			if db, err := bbolt.Open(filepath.Join(e.dir, "session.db"), 0o600, &bbolt.Options{Timeout: 2 * time.Second}); err == nil {
				db.Update(func(tx *bbolt.Tx) error {
					for id, m := range e.model {
						if r.Intn(2) == 0 {
							m.down, m.up = r.Int63n(1<<40), r.Int63n(1<<40)
							b := tx.Bucket([]byte("torrents")).Bucket([]byte(id))
							b.Put([]byte("bytes_downloaded"), []byte(strconv.FormatInt(m.down, 10)))
							b.Put([]byte("bytes_uploaded"), []byte(strconv.FormatInt(m.up, 10)))
						}
						if !m.magnet && r.Intn(3) == 0 {
							// the record of a torrent that was added by magnet link with a display name in an earlier
							// session and has fetched its metadata since: the name differs from the info dictionary's
							m.name = fmt.Sprintf("display name %d/%d", e.k, r.Intn(1000))
							tx.Bucket([]byte("torrents")).Bucket([]byte(id)).Put([]byte("name"), []byte(m.name))
							run.Count("records_with_display_name_planted", 1)
						}
					}
					return nil
				})
				db.Close()
			}
			if !e.open() {
				return
			}
			e.log = append(e.log, "reopen")
			time.Sleep(30 * time.Millisecond)
			e.check("after reopen", true)
			continue
		}
		e.check(fmt.Sprintf("after op %d (%s)", op, e.log[len(e.log)-1]), false)
	}
	if !e.viol {
		e.s.Close()
		e.checkDB(filepath.Join(e.dir, "session.db"), "after final Close", false)
	} else {
		e.s.Close()
	}
	run.Count("registry_ops", int64(len(e.log)))
	run.Distinct(vx.Hash(e.log))
	if k%40 == 1 {
		t := e.log
		if len(t) > 14 {
			t = t[:14]
		}
		run.Sample(map[string]any{"ports": e.nports, "ops": t})
	}
}

// open a second session on the compacted database and compare what it loads
func (e *seqEnv) loadCompacted(path string) {
	dir := filepath.Join(e.dir, "compactsess")
	os.MkdirAll(dir, 0o755)
	defer os.RemoveAll(dir)
	b, err := os.ReadFile(path)
	if err != nil {
		return
	}
	os.WriteFile(filepath.Join(dir, "session.db"), b, 0o600)
	s2, _, err := sess.New(sess.Opts{Dir: dir, Storage: memstore.NewProvider(filepath.Join(dir, "mem")), Mutate: func(c *torrent.Config) {
		c.PortBegin, c.PortEnd = e.cfg.PortBegin, e.cfg.PortEnd
		c.ResumeOnStartup = false
	}})
	if err != nil {
		e.bad("compacted-db-does-not-open", "a session cannot be opened on the compacted database: %v", err)
		return
	}
	defer s2.Close()
	for id, m := range e.model {
		if m.magnet {
			continue
		}
		t := s2.GetTorrent(id)
		if t == nil {
			e.bad("compacted-db-lost-torrent", "torrent %q (has metadata) does not load from the compacted database", id)
			return
		}
		if [20]byte(t.InfoHash()) != m.ih || t.Name() != m.name || t.Port() != m.port {
			e.bad("compacted-db-field-differs", "torrent %q loads from the compacted database as hash %x name %q port %d; live %x %q %d", id, t.InfoHash(), t.Name(), t.Port(), m.ih, m.name, m.port)
			return
		}
		if tiers, urls, ok := exported(t, false); ok {
			if !reflect.DeepEqual(tierSet(tiers), tierSet(m.tiers)) {
				e.bad("compacted-db-field-differs:trackers", "torrent %q loads from the compacted database with trackers %v, live %v", id, tiers, m.tiers)
				return
			}
			if !reflect.DeepEqual(sortedStrings(urls), sortedStrings(m.urls)) {
				e.bad("compacted-db-field-differs:webseeds", "torrent %q loads from the compacted database with web seeds %v, live %v", id, urls, m.urls)
				return
			}
		}
	}
	run.Count("compactions_reloaded", 1)
}

// ---------------------------------------------------------------- (C) concurrent histories + porcupine

type regIn struct {
	Op string // add | remove | list | ports
	ID string
}
type regOut struct {
	OK    bool
	IDs   string // sorted, joined
	Ports int
}

func concHistory(k int) {
	label := fmt.Sprintf("conc-%d", k)
	run.CaseStart(label)
	concHistoryBody(k)
	run.CaseEnd(label)
}

func concHistoryBody(k int) {
	r := run.Rand("conc", k)
	id := fmt.Sprintf("conc-%d", k)
	dir := filepath.Join(run.Work, fmt.Sprintf("c%d", k))
	os.MkdirAll(dir, 0o755)
	defer os.RemoveAll(dir)
	const nports = 30
	s, _, err := sess.New(sess.Opts{Dir: dir, Storage: memstore.NewProvider(filepath.Join(dir, "mem")), Mutate: func(c *torrent.Config) { c.PortEnd = c.PortBegin + nports; c.ResumeWriteInterval = 3 * time.Millisecond }})
	if err != nil {
		run.Inconclusive("session: " + err.Error())
		return
	}
	closed := false
	defer func() {
		if !closed {
			s.Close()
		}
	}()
	run.Eval(1)
	// two histories out of three widen the windows between (not inside) the registry's critical sections: after the
	// registry entry is gone and before its database record is deleted, and between reserving id/port and inserting
	var hits atomic.Int64
	defer func() { run.Count("delay_points_hit", hits.Load()) }()
	if k%3 != 0 {
		dmax := int64(1+k%4) * int64(time.Millisecond)
		verifhook.Set(func(name string) {
			if name == "session.remove.unlocked" || name == "session.add.reserved" {
				n := hits.Add(1)
				time.Sleep(time.Duration((n*7919 + int64(k)*104729) % dmax))
			}
		})
		defer verifhook.Set(nil)
	}
	l := &gen.Layout{Name: "c", PieceLen: 16384, Seed: int64(k), Single: true, Files: []gen.FileSpec{{Length: 5000}}}
	tb := gen.TorrentBytes(l.InfoBytes(l.Truth()), nil, nil)
	nclients := 2 + r.Intn(4)
	nkeys := 1 + r.Intn(2)
	var clock atomic.Int64
	var mu sync.Mutex
	var ops []porcupine.Operation
	var wg sync.WaitGroup
	for c := 0; c < nclients; c++ {
		wg.Add(1)
		cr := rand.New(rand.NewSource(r.Int63()))
		go func(c int) {
			defer wg.Done()
			for i := 0; i < 3+cr.Intn(4); i++ {
				in := regIn{ID: fmt.Sprintf("k%d", cr.Intn(nkeys))}
				switch cr.Intn(10) {
				case 0, 1, 2, 3:
					in.Op = "add"
				case 4, 5, 6:
					in.Op = "remove"
				case 7, 8:
					in.Op = "list"
				default:
					in.Op = "ports"
				}
				call := clock.Add(1)
				var out regOut
				switch in.Op {
				case "add":
					_, err := s.AddTorrent(bytes.NewReader(tb), &torrent.AddTorrentOptions{ID: in.ID, Stopped: true})
					out.OK = err == nil
				case "remove":
					s.RemoveTorrent(in.ID, true)
					out.OK = true
				case "list":
					var ids []string
					for _, t := range s.ListTorrents() {
						ids = append(ids, t.ID())
					}
					sort.Strings(ids)
					out.IDs = strings.Join(ids, ",")
				case "ports":
					out.Ports = s.Stats().PortsAvailable
				}
				ret := clock.Add(1)
				mu.Lock()
				ops = append(ops, porcupine.Operation{ClientId: c, Input: in, Call: call, Output: out, Return: ret})
				mu.Unlock()
			}
		}(c)
	}
	wg.Wait()
	model := porcupine.Model{
		Init: func() any { return "" },
		Step: func(st, in, out any) (bool, any) {
			set := map[string]bool{}
			for _, x := range strings.Split(st.(string), ",") {
				if x != "" {
					set[x] = true
				}
			}
			i, o := in.(regIn), out.(regOut)
			enc := func() string {
				var ks []string
				for k := range set {
					ks = append(ks, k)
				}
				sort.Strings(ks)
				return strings.Join(ks, ",")
			}
			switch i.Op {
			case "add":
				if set[i.ID] {
					return !o.OK, st
				}
				if !o.OK {
					return false, st // nothing else can make this add fail: plenty of ports, valid input
				}
				set[i.ID] = true
				return true, enc()
			case "remove":
				delete(set, i.ID)
				return true, enc()
			case "list":
				return o.IDs == st.(string), st
			default:
				// a port is taken before the torrent becomes visible and released after it disappeared: the
				// count may lag behind the registry by the number of operations in flight, so only bounds hold
				return o.Ports <= nports && o.Ports >= nports-len(set)-nclients, st
			}
		},
		DescribeOperation: func(in, out any) string { return fmt.Sprintf("%+v -> %+v", in, out) },
	}
	res, _ := porcupine.CheckOperationsVerbose(model, ops, 20*time.Second)
	switch res {
	case porcupine.Unknown:
		run.Inconclusive(fmt.Sprintf("%s: linearizability checker timed out on %d operations", id, len(ops)))
		return
	case porcupine.Illegal:
		var lines []string
		sort.Slice(ops, func(i, j int) bool { return ops[i].Call < ops[j].Call })
		adds := map[string]int{}
		for _, o := range ops {
			lines = append(lines, fmt.Sprintf("c%d [%d,%d] %+v -> %+v", o.ClientId, o.Call, o.Return, o.Input, o.Output))
			if in := o.Input.(regIn); in.Op == "add" && o.Output.(regOut).OK {
				adds[in.ID]++
			}
		}
		sig := "history-not-linearizable"
		removes := 0
		for _, o := range ops {
			if o.Input.(regIn).Op == "remove" {
				removes++
			}
		}
		for _, n := range adds {
			if n >= 2 && removes == 0 {
				sig = "history-not-linearizable:two-successful-adds-of-one-id-without-remove"
			}
		}
		run.Violation(sig, fmt.Sprintf("%s: the recorded history of %d Add/Remove/List/PortsAvailable calls from %d clients is not linearizable with respect to a map", id, len(ops), nclients), map[string]any{"history": lines})
		return
	}
	// at quiescence the strict invariants hold again
	live := s.ListTorrents()
	if avail := s.Stats().PortsAvailable; avail+len(live) != nports {
		run.Violation("port-conservation:after-concurrent-history", fmt.Sprintf("%s: %d ports available + %d live torrents != %d after the history", id, avail, len(live), nports), nil)
		return
	}
	var liveIDs []string
	for _, t := range live {
		liveIDs = append(liveIDs, t.ID())
	}
	sort.Strings(liveIDs)
	time.Sleep(10 * time.Millisecond) // a few periodic resume writes
	s.Close()
	closed = true
	var recs []string
	if db, err := bbolt.Open(filepath.Join(dir, "session.db"), 0o600, &bbolt.Options{ReadOnly: true, Timeout: 2 * time.Second}); err == nil {
		db.View(func(tx *bbolt.Tx) error {
			return tx.Bucket([]byte("torrents")).ForEach(func(k, v []byte) error { recs = append(recs, string(k)); return nil })
		})
		db.Close()
	}
	sort.Strings(recs)
	if !reflect.DeepEqual(recs, liveIDs) && !(len(recs) == 0 && len(liveIDs) == 0) {
		run.Violation("db-records-differ-from-registry:after-concurrent-history", fmt.Sprintf("%s: after the history the session held %v, the database holds records %v", id, liveIDs, recs), nil)
		return
	}
	run.Count("linearizable_histories", 1)
	run.Count("concurrent_ops", int64(len(ops)))
	run.Distinct(vx.Hash(fmt.Sprint(ops)))
}

func min(a, b int) int {
	if a < b {
		return a
	}
	return b
}

func main() {
	run = vx.Begin("C14", "exploration",
		"(A) resume records with hostile field values written and read back through the resumer; (B) sequential PRNG histories of 10-35 registry operations (AddTorrent with/without explicit id, AddURI magnet, garbage input, port exhaustion with 3/5/40 ports, duplicate id, Remove, Start, Stop, AddTracker, CompactDatabase + reload in a second session, Close + counters planted + reopen) compared with a model after every operation, port conservation law, database inspected with bbolt after every Close; (C) concurrent histories of 2-5 clients x 3-6 calls (Add/Remove with 1-2 explicit ids, List, PortsAvailable) recorded with an atomic clock at call and return and checked by porcupine against a map model. distinct = distinct operation logs / histories")
	switch vx.ChildRole() {
	case "resumer":
		lo, hi := vx.ChildRange()
		for k := lo; k < hi; k++ {
			resumerCase(k)
		}
		run.Finish(0)
	case "seq":
		lo, hi := vx.ChildRange()
		for k := lo; k < hi; k++ {
			if run.Violations() >= 5 {
				break
			}
			seqHistory(k)
		}
		run.Finish(0)
	case "conc":
		lo, hi := vx.ChildRange()
		for k := lo; k < hi; k++ {
			if run.Violations() >= 5 {
				break
			}
			concHistory(k)
		}
		run.Finish(0)
	}
	crash := func(res vx.ChildResult, k int, logp string) {
		run.Violation("crash:"+vx.NormalisePanic(res.PanicText)+"|"+res.RainFrame, fmt.Sprintf("%s: client crashed: %s at %s (log %s)", res.OpenCase, res.PanicText, res.RainFrame, logp), map[string]any{"tail": res.Tail})
	}
	var wg sync.WaitGroup
	wg.Add(3)
	go func() { defer wg.Done(); run.RunChildren("resumer", run.N(400, 20000), 2, "resumer-", time.Second, crash) }()
	go func() { defer wg.Done(); run.RunChildren("seq", run.N(160, 6000), 8, "seq-", 20*time.Second, crash) }()
	go func() { defer wg.Done(); run.RunChildren("conc", run.N(400, 30000), 6, "conc-", 5*time.Second, crash) }()
	wg.Wait()
	run.Assume("time stamps are compared at the stored granularity (RFC 3339 seconds)")
	run.Assume("PortsAvailable is not atomic with the registry (port taken before insert, released after delete): inside concurrent histories only bounds are checked, the exact conservation law at quiescence")
	run.Finish(150)
}
