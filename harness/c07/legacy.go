// Info dictionaries as older resume data (versions 1 and 2) and moved torrents hand them to the parser:
// padding files are NOT hidden there (they are ordinary files on disk), so files that carry a padding
// marker must obey the same path rules as every other file.
package main

import (
	"crypto/sha1"
	"fmt"
	"math/rand"
	"os"
	"path/filepath"
	"strings"

	"github.com/cenkalti/rain/v2/internal/allocator"
	"github.com/cenkalti/rain/v2/internal/metainfo"
	"github.com/cenkalti/rain/v2/verifx/benc"
	"github.com/cenkalti/rain/v2/verifx/gen"
	"github.com/cenkalti/rain/v2/verifx/memstore"
	"github.com/cenkalti/rain/v2/verifx/vx"
)

// padMarked draws a multi-file info dictionary in which some files share a path and/or carry a padding marker
// (BEP 47 attr, BitComet name prefix), with hostile components mixed in.
func padMarked(r *rand.Rand) (info []byte, desc string) {
	nf := 2 + r.Intn(3)
	pl := int64(16384)
	var total int64
	var lengths []int64
	for i := 0; i < nf; i++ {
		ln := int64(1 + r.Intn(9000))
		lengths = append(lengths, ln)
		total += ln
	}
	truth := make([]byte, total)
	var pieces []byte
	for o := int64(0); o < total; o += pl {
		e := o + pl
		if e > total {
			e = total
		}
		s := sha1.Sum(truth[o:e])
		pieces = append(pieces, s[:]...)
	}
	var paths [][]string
	var fl benc.List
	var ds []string
	for i := 0; i < nf; i++ {
		var p []string
		switch {
		case i > 0 && r.Intn(2) == 0:
			p = append([]string(nil), paths[r.Intn(i)]...) // same path as an earlier file
		case r.Intn(3) == 0:
			p = []string{".pad", fmt.Sprint(lengths[i] % 3)}
		case r.Intn(3) == 0:
			p = []string{fmt.Sprintf("_____padding_file_%d_", r.Intn(2))}
		case r.Intn(4) == 0:
			p = []string{gen.HostileComponents[r.Intn(len(gen.HostileComponents))], fmt.Sprintf("f%d", r.Intn(2))}
		default:
			p = []string{fmt.Sprintf("d%d", r.Intn(2)), fmt.Sprintf("f%d", r.Intn(2))}
		}
		paths = append(paths, p)
		fd := benc.Dict{{K: "length", V: lengths[i]}, {K: "path", V: p}}
		attr := ""
		if r.Intn(2) == 0 {
			attr = []string{"p", "p", "hp", "x"}[r.Intn(4)]
			fd = append(fd, benc.KV{K: "attr", V: attr})
		}
		ds = append(ds, fmt.Sprintf("%q attr=%q", p, attr))
		fl = append(fl, fd.Sorted())
	}
	d := benc.Dict{{K: "name", V: fmt.Sprintf("legacy%x", r.Uint32())}, {K: "piece length", V: pl}, {K: "pieces", V: pieces}, {K: "files", V: fl}}
	return benc.Encode(d.Sorted()), strings.Join(ds, " ; ")
}

func legacyCases(lo, hi int) {
	prov := memstore.NewProvider("/legacyroot")
	for k := lo; k < hi; k++ {
		r := run.Rand("legacy", k)
		info, desc := padMarked(r)
		version := 1 + k%3
		id := fmt.Sprintf("legacy-%d", k)
		desc = fmt.Sprintf("resume version %d files: %s", version, desc)
		run.CaseStart(id + " " + desc)
		run.Eval(1)
		pt, ok := vx.Try(func() {
			mi, err := metainfo.NewInfo(info, version >= 2, version >= 3)
			if err != nil {
				run.Count("legacy_rejected", 1)
				run.Distinct("lrej|" + vx.Hash(info, version))
				return
			}
			tid := fmt.Sprintf("lg%d", k)
			sto, _ := prov.GetStorage(tid)
			al := allocator.New()
			resC := make(chan *allocator.Allocator, 1)
			progC := make(chan allocator.Progress, 1024)
			go func() {
				for range progC {
				}
			}()
			al.Run(mi, sto, progC, resC)
			res := <-resC
			close(progC)
			for _, f := range res.Files {
				if f.Storage != nil {
					f.Storage.Close()
				}
			}
			st := prov.Get(tid)
			root := "/legacyroot/" + tid
			seen := map[string]int{}
			rep := map[string]any{"case": desc, "info_hex": fmt.Sprintf("%x", info)}
			for i, nm := range st.OpenNames {
				if filepath.IsAbs(nm) {
					run.Violation("open-absolute-path", fmt.Sprintf("%s: Storage.Open called with the absolute path %q (%s)", id, nm, desc), rep)
					continue
				}
				full := filepath.Join(root, filepath.Clean(nm))
				if full != root && !strings.HasPrefix(full, root+string(os.PathSeparator)) {
					run.Violation("open-escapes-root", fmt.Sprintf("%s: Storage.Open(%q) resolves to %s, outside the torrent's directory %s (%s)", id, nm, full, root, desc), rep)
					continue
				}
				if j, dup := seen[full]; dup {
					run.Violation("two-files-one-path", fmt.Sprintf("%s: files %d and %d of one torrent both resolve to %s; with resume version %d padding files are real files (%s)", id, j, i, full, version, desc), rep)
				}
				seen[full] = i
			}
			run.Count("legacy_open_names_checked", int64(len(st.OpenNames)))
			run.Count("legacy_accepted", 1)
			run.Distinct("lacc|" + vx.Hash(info, version))
		})
		if !ok {
			run.Violation("panic:legacy-info", fmt.Sprintf("%s: panic %s (%s)", id, pt, desc), nil)
		}
		run.CaseEnd(id + " " + desc)
	}
}
