// C07: path confinement. Hostile torrent names / file paths and hostile tar
// entry names: (1) every name handed to Storage.Open must stay below the
// storage root and distinct files must get distinct paths (recording storage);
// (2) with the real file storage inside a sandbox directory, nothing outside the
// torrent's own directory may be created or changed (tree diff); (3) a moved
// torrent's tar archive must not be extracted outside its destination.
package main

import (
	"archive/tar"
	"bytes"
	"encoding/json"
	"fmt"
	"io/fs"
	"mime/multipart"
	"net/http"
	"os"
	"path/filepath"
	"sort"
	"strings"
	"sync"
	"time"

	"github.com/cenkalti/rain/v2/internal/logger"
	"github.com/cenkalti/rain/v2/internal/resumer/boltdbresumer"
	"github.com/cenkalti/rain/v2/torrent"
	"github.com/cenkalti/rain/v2/verifx/gen"
	"github.com/cenkalti/rain/v2/verifx/memstore"
	"github.com/cenkalti/rain/v2/verifx/sess"
	"github.com/cenkalti/rain/v2/verifx/vx"
)

var run *vx.Run

// tree snapshot: path -> "size/mtime/mode"
func snapshot(root string) map[string]string {
	m := map[string]string{}
	filepath.WalkDir(root, func(p string, d fs.DirEntry, err error) error {
		if err != nil {
			return nil
		}
		fi, err := d.Info()
		if err != nil {
			return nil
		}
		if d.IsDir() {
			m[p] = "dir"
		} else {
			m[p] = fmt.Sprintf("%d/%d", fi.Size(), fi.ModTime().UnixNano())
		}
		return nil
	})
	return m
}

func diffOutside(before, after map[string]string, allowedPrefix []string) []string {
	var out []string
	ok := func(p string) bool {
		for _, a := range allowedPrefix {
			if p == a || strings.HasPrefix(p, a+string(os.PathSeparator)) {
				return true
			}
		}
		return false
	}
	for p, v := range after {
		if b, had := before[p]; (!had || b != v) && !ok(p) {
			if !had {
				out = append(out, "created "+p)
			} else if v != "dir" {
				out = append(out, "modified "+p)
			}
		}
	}
	for p := range before {
		if _, still := after[p]; !still && !ok(p) {
			out = append(out, "removed "+p)
		}
	}
	sort.Strings(out)
	return out
}

func q(s string) string { return fmt.Sprintf("%q", s) }

// (1)+(2): hostile names through AddTorrent
func namesCases(lo, hi int) {
	base := filepath.Join(run.Work, fmt.Sprintf("n%d", lo))
	sandbox := filepath.Join(base, "sandbox")
	dataDir := filepath.Join(sandbox, "outer", "inner", "data")
	os.MkdirAll(dataDir, 0o755)
	os.WriteFile(filepath.Join(sandbox, "canary.txt"), []byte("do not touch"), 0o644)
	os.WriteFile(filepath.Join(sandbox, "outer", "neighbour.bin"), []byte("neighbour"), 0o644)
	defer os.RemoveAll(base)
	type mode struct {
		real     bool
		withID   bool
		prov     *memstore.Provider
		s        *torrent.Session
		dir      string
	}
	var modes []*mode
	for i, md := range []*mode{{real: false}, {real: true, withID: true}, {real: true, withID: false}} {
		md.dir = filepath.Join(base, fmt.Sprintf("db%d", i))
		os.MkdirAll(md.dir, 0o755)
		if !md.real {
			md.prov = memstore.NewProvider("/memroot")
		}
		s, _, err := sess.New(sess.Opts{Dir: md.dir, Storage: md.prov, Mutate: func(c *torrent.Config) {
			c.PortEnd = c.PortBegin + 4000
			if md.real {
				c.DataDir = dataDir
				c.DataDirIncludesTorrentID = md.withID
			}
		}})
		if err != nil {
			run.Inconclusive("session: " + err.Error())
			return
		}
		md.s = s
		modes = append(modes, md)
	}
	defer func() {
		for _, md := range modes {
			md.s.Close()
		}
	}()
	for k := lo; k < hi; k++ {
		r := run.Rand("names", k)
		h := gen.HostileNames(r)
		md := modes[k%3]
		if k%7 != 0 && md.real {
			md = modes[0] // most cases on the recording storage, a share on the real file system
		}
		id := fmt.Sprintf("names-%d", k)
		desc := fmt.Sprintf("name=%s name.utf-8=%s files=%s files.utf-8=%s single=%v real=%v withID=%v", q(h.Name), q(h.NameU8), fmt.Sprintf("%q", h.Files), fmt.Sprintf("%q", h.FilesU8), h.Single, md.real, md.withID)
		run.CaseStart(id + " " + desc)
		run.Eval(1)
		var before map[string]string
		if md.real {
			before = snapshot(sandbox)
		}
		tid := fmt.Sprintf("tid%d", k)
		t, err := md.s.AddTorrent(bytes.NewReader(gen.TorrentBytes(h.Bytes, nil, nil)), &torrent.AddTorrentOptions{ID: tid})
		if err != nil {
			run.Count("names_rejected", 1)
			run.Distinct("nrej|" + vx.Hash(h.Bytes))
			run.CaseEnd(id + " " + desc)
			continue
		}
		sess.WaitFor(5*time.Second, func() bool {
			st := t.Stats().Status
			return st == torrent.Downloading || st == torrent.Stopped || st == torrent.Seeding
		})
		root := t.Dir()
		rep := map[string]any{"case": desc, "info_hex": fmt.Sprintf("%x", h.Bytes)}
		if !md.real {
			st := md.prov.Get(tid)
			seen := map[string]int{}
			for i, nm := range st.OpenNames {
				if filepath.IsAbs(nm) {
					run.Violation("open-absolute-path", fmt.Sprintf("%s: Storage.Open called with the absolute path %q (%s)", id, nm, desc), rep)
					continue
				}
				full := filepath.Join(root, filepath.Clean(nm))
				if full != root && !strings.HasPrefix(full, root+string(os.PathSeparator)) {
					run.Violation("open-escapes-root", fmt.Sprintf("%s: Storage.Open(%q) resolves to %s, outside the torrent's directory %s (%s)", id, nm, full, root, desc), rep)
					continue
				}
				if j, dup := seen[full]; dup {
					run.Violation("two-files-one-path", fmt.Sprintf("%s: files %d and %d of one torrent both resolve to %s (%s)", id, j, i, full, desc), rep)
				}
				seen[full] = i
			}
			run.Count("open_names_checked", int64(len(st.OpenNames)))
		} else {
			after := snapshot(sandbox)
			if d := diffOutside(before, after, []string{root, md.dir}); len(d) > 0 {
				if len(d) > 5 {
					d = d[:5]
				}
				run.Violation("filesystem-change-outside-torrent-dir", fmt.Sprintf("%s: changes outside the torrent's own directory %s: %v (%s)", id, root, d, desc), rep)
			}
			if !strings.HasPrefix(root+string(os.PathSeparator), dataDir+string(os.PathSeparator)) {
				run.Violation("torrent-dir-outside-data-dir", fmt.Sprintf("%s: Torrent.Dir()=%s is not below the data directory %s", id, root, dataDir), rep)
			}
			run.Count("real_fs_cases", 1)
		}
		md.s.RemoveTorrent(tid, false)
		if md.real {
			// removal must not touch anything outside either
			after2 := snapshot(sandbox)
			if d := diffOutside(before, after2, []string{root, md.dir, dataDir}); len(d) > 0 {
				run.Violation("removal-touched-outside", fmt.Sprintf("%s: removing the torrent changed %v (%s)", id, d, desc), rep)
			}
			if _, err := os.Stat(filepath.Join(sandbox, "canary.txt")); err != nil {
				run.Violation("removal-touched-outside", fmt.Sprintf("%s: the sandbox canary file is gone after RemoveTorrent (%s)", id, desc), rep)
				os.WriteFile(filepath.Join(sandbox, "canary.txt"), []byte("do not touch"), 0o644)
			}
			os.MkdirAll(dataDir, 0o755)
		}
		run.Count("names_accepted", 1)
		run.Distinct("nacc|" + vx.Hash(h.Bytes, md.real, md.withID))
		if k%400 == 5 {
			run.Sample(map[string]any{"case": desc, "accepted": true})
		}
		run.CaseEnd(id + " " + desc)
	}
}

// (3) hostile tar through /move-torrent
func tarCases(lo, hi int) {
	base := filepath.Join(run.Work, fmt.Sprintf("t%d", lo))
	sandbox := filepath.Join(base, "sandbox")
	dataDir := filepath.Join(sandbox, "outer", "inner", "data")
	os.MkdirAll(dataDir, 0o755)
	os.WriteFile(filepath.Join(sandbox, "canary.txt"), []byte("do not touch"), 0o644)
	defer os.RemoveAll(base)
	dbdir := filepath.Join(base, "db")
	os.MkdirAll(dbdir, 0o755)
	rpcPort := 30000 + (os.Getpid()*7+lo)%20000
	rpcHost := sess.NextIP()
	s, _, err := sess.New(sess.Opts{Dir: dbdir, Mutate: func(c *torrent.Config) {
		c.DataDir = dataDir
		c.DataDirIncludesTorrentID = true
		c.RPCEnabled = true
		c.RPCHost = rpcHost
		c.RPCPort = rpcPort
		c.PortEnd = c.PortBegin + 4000
	}})
	if err != nil {
		run.Inconclusive("rpc session: " + err.Error())
		return
	}
	defer s.Close()
	url := fmt.Sprintf("http://%s:%d/move-torrent", rpcHost, rpcPort)
	entryNames := []string{"../x", "/abs/x", "a/../../x", "./x", "", "..", "a/../b", "../../../../etc/passwd", "dir/../../../canary.txt", "ok/file.bin", "../data2/x", "a\x00b", strings.Repeat("../", 20) + "x", "/", "./../x", "sub/./../../y", "..\\x", "tid/../../z"}
	for k := lo; k < hi; k++ {
		r := run.Rand("tar", k)
		id := fmt.Sprintf("tar-%d", k)
		tid := fmt.Sprintf("moved%d", k)
		l := &gen.Layout{Name: "mv", PieceLen: 16384, Seed: int64(k), Single: true, Files: []gen.FileSpec{{Length: 20000}}}
		truth := l.Truth()
		info := l.InfoBytes(truth)
		var tb bytes.Buffer
		tw := tar.NewWriter(&tb)
		var names []string
		n := 1 + r.Intn(4)
		for i := 0; i < n; i++ {
			nm := entryNames[r.Intn(len(entryNames))]
			switch r.Intn(6) {
			case 0:
				nm = "mv"
			case 1: // a sibling whose name starts with the destination's name
				nm = "../" + tid + []string{"evil/x", ".bak", "x"}[r.Intn(3)]
			}
			names = append(names, nm)
			typ := byte(tar.TypeReg)
			if r.Intn(8) == 0 {
				typ = []byte{tar.TypeSymlink, tar.TypeLink, tar.TypeDir}[r.Intn(3)]
			}
			body := []byte(fmt.Sprintf("payload %d of case %d", i, k))
			hdr := &tar.Header{Name: nm, Mode: 0o600, Size: int64(len(body)), Typeflag: typ, Linkname: "../../canary.txt"}
			if typ != tar.TypeReg {
				hdr.Size = 0
			}
			if tw.WriteHeader(hdr) == nil && typ == tar.TypeReg {
				tw.Write(body)
			}
		}
		tw.Close()
		desc := fmt.Sprintf("entries=%q", names)
		run.CaseStart(id + " " + desc)
		run.Eval(1)
		ih := gen.InfoHash(info)
		spec := boltdbresumer.Spec{InfoHash: ih[:], Name: "mv", Info: info, AddedAt: time.Now(), Version: 3}
		var mb bytes.Buffer
		mw := multipart.NewWriter(&mb)
		w, _ := mw.CreateFormField("id")
		w.Write([]byte(tid))
		w, _ = mw.CreateFormField("metadata")
		json.NewEncoder(w).Encode(spec)
		w, _ = mw.CreateFormField("data")
		w.Write(tb.Bytes())
		mw.Close()
		before := snapshot(sandbox)
		req, _ := http.NewRequest(http.MethodPost, url+"?id="+tid, &mb)
		req.Header.Set("Content-Type", mw.FormDataContentType())
		resp, err := (&http.Client{Timeout: 20 * time.Second}).Do(req)
		status := 0
		if err == nil {
			status = resp.StatusCode
			resp.Body.Close()
		}
		after := snapshot(sandbox)
		dest := filepath.Join(dataDir, tid)
		if d := diffOutside(before, after, []string{dest, dbdir}); len(d) > 0 {
			run.Violation("tar-entry-outside-destination", fmt.Sprintf("%s: move with tar %s (HTTP %d) changed %v; destination is %s", id, desc, status, d, dest), map[string]any{"entries": names})
		}
		if b, err := os.ReadFile(filepath.Join(sandbox, "canary.txt")); err != nil || string(b) != "do not touch" {
			run.Violation("tar-entry-outside-destination", fmt.Sprintf("%s: the sandbox canary was overwritten by tar %s", id, desc), nil)
			os.WriteFile(filepath.Join(sandbox, "canary.txt"), []byte("do not touch"), 0o644)
		}
		if status == 200 {
			run.Count("moves_accepted", 1)
			s.RemoveTorrent(tid, false)
		} else {
			run.Count("moves_refused", 1)
			os.RemoveAll(dest)
		}
		run.Distinct("tar|" + vx.Hash(names))
		if k%100 == 3 {
			run.Sample(map[string]any{"tar_entries": names, "http_status": status})
		}
		run.CaseEnd(id + " " + desc)
	}
}

func main() {
	run = vx.Begin("C07", "exploration",
		"(1) torrent names and path components from a hostile alphabet (.., ., empty, /, a/../.., padded dots, absolute, NUL, backslash, 300-byte and multi-byte names, invalid UTF-8, name.utf-8/path.utf-8 overrides, components equal after cleaning; all strings up to length 3 over {. / a space 0xff}) in single- and multi-file torrents added to sessions on a recording storage (every Storage.Open name checked against the root, duplicates detected) and (2) on the real file storage inside a sandbox tree with and without the torrent-id directory level (tree diff around add and remove); (3) tar archives with hostile entry names and link/dir type flags posted to /move-torrent of an RPC-enabled session (tree diff around the destination); (4) info dictionaries with padding markers (BEP 47 attr, BitComet prefix), shared paths and hostile components parsed the way resume data of versions 1, 2 and 3 and moved torrents are (padding files shown or hidden), allocated on the recording storage: same Open-name oracle. distinct = distinct metainfos / entry lists")
	logger.Disable()
	switch vx.ChildRole() {
	case "names":
		lo, hi := vx.ChildRange()
		namesCases(lo, hi)
		run.Finish(0)
	case "tar":
		lo, hi := vx.ChildRange()
		tarCases(lo, hi)
		run.Finish(0)
	case "legacy":
		lo, hi := vx.ChildRange()
		legacyCases(lo, hi)
		run.Finish(0)
	}
	crash := func(res vx.ChildResult, k int, logp string) {
		run.Violation("crash:"+vx.NormalisePanic(res.PanicText)+"|"+res.RainFrame, fmt.Sprintf("%s: client crashed: %s at %s (log %s)", res.OpenCase, res.PanicText, res.RainFrame, logp), map[string]any{"tail": res.Tail})
	}
	var wg sync.WaitGroup
	wg.Add(3)
	go func() { defer wg.Done(); run.RunChildren("legacy", run.N(6000, 120000), 2, "legacy-", 50*time.Millisecond, crash) }()
	go func() { defer wg.Done(); run.RunChildren("names", run.N(30000, 400000), 12, "names-", 200*time.Millisecond, crash) }()
	go func() { defer wg.Done(); run.RunChildren("tar", run.N(1600, 40000), 4, "tar-", time.Second, crash) }()
	wg.Wait()
	run.Assume("symlinks planted by third parties inside the data directory and case-insensitive file systems are out of scope")
	run.Assume("the destination of a move is the receiving session's directory for the given torrent id")
	run.Finish(300)
}
