package main

import (
	"bytes"
	"crypto/rand"
	"fmt"
	"io"
	mrand "math/rand"
	"net"
	"os"
	"path/filepath"
	"sort"
	"strings"
	"sync"
	"sync/atomic"
	"time"

	"github.com/cenkalti/rain/v2/torrent"
	"github.com/cenkalti/rain/v2/verifx/evlog"
	"github.com/cenkalti/rain/v2/verifx/gen"
	"github.com/cenkalti/rain/v2/verifx/memstore"
	"github.com/cenkalti/rain/v2/verifx/refpeer"
	"github.com/cenkalti/rain/v2/verifx/refweb"
	"github.com/cenkalti/rain/v2/verifx/refwire"
	"github.com/cenkalti/rain/v2/verifx/sess"
	"github.com/cenkalti/rain/v2/verifx/vx"
)

// connTable is the reference side's exact view of which TCP connections to / from
// the client are open: a connection counts as open from accept / connect until its
// reader saw EOF or an error.
type connTable struct {
	mu    sync.Mutex
	conns map[int]*tconn
	next  int
}
type tconn struct {
	id     int
	kind   string
	c      net.Conn
	closed atomic.Bool
	opened time.Time
}

func (t *connTable) add(kind string, c net.Conn) *tconn {
	t.mu.Lock()
	defer t.mu.Unlock()
	if t.conns == nil {
		t.conns = map[int]*tconn{}
	}
	t.next++
	tc := &tconn{id: t.next, kind: kind, c: c, opened: time.Now()}
	t.conns[tc.id] = tc
	return tc
}

func (t *connTable) open() []*tconn {
	t.mu.Lock()
	defer t.mu.Unlock()
	var o []*tconn
	for _, c := range t.conns {
		if !c.closed.Load() {
			o = append(o, c)
		}
	}
	return o
}

// confirmedAbove: more than limit connections are open now AND the same connections are still open
// after the client's event loop has demonstrably run many times (barrier = a call that is answered by
// the loop) over at least `grace`. A limit that is really broken keeps the extra connections open for
// good; an event loop that is merely slow on a loaded machine catches up within the 2 s this waits.
func (t *connTable) confirmedAbove(limit int, grace time.Duration, barrier func()) []*tconn {
	o := t.open()
	if len(o) <= limit {
		return nil
	}
	t0 := time.Now()
	for i := 0; i < 40; i++ {
		barrier()
		time.Sleep(50 * time.Millisecond)
		var still []*tconn
		for _, c := range o {
			if !c.closed.Load() {
				still = append(still, c)
			}
		}
		if len(still) <= limit {
			return nil
		}
		if i >= 20 && time.Since(t0) >= grace {
			o = still
		}
	}
	var still []*tconn
	for _, c := range o {
		if !c.closed.Load() {
			still = append(still, c)
		}
	}
	if len(still) > limit {
		return still
	}
	return nil
}

func drain(tc *tconn) {
	buf := make([]byte, 4096)
	for {
		if _, err := tc.c.Read(buf); err != nil {
			tc.closed.Store(true)
			return
		}
	}
}

func describe(cs []*tconn) string {
	var s []string
	for _, c := range cs {
		s = append(s, fmt.Sprintf("#%d/%s", c.id, c.kind))
	}
	sort.Strings(s)
	return strings.Join(s, " ")
}

func mkTorrent(r *mrand.Rand, k int, total int64, urls []string) (*gen.Layout, []byte, []byte, []byte) {
	l := &gen.Layout{Name: fmt.Sprintf("c17-%d", k), PieceLen: 32768, Seed: int64(k) + 1, Single: true, Files: []gen.FileSpec{{Length: total}}}
	truth := l.Truth()
	info := l.InfoBytes(truth)
	return l, truth, info, gen.TorrentBytes(info, nil, urls)
}

func addPeers(t *torrent.Torrent, as []*net.TCPAddr) {
	for _, a := range as {
		t.AddPeer(a.String())
	}
}

func randID() (id [20]byte) { rand.Read(id[:]); copy(id[:], "-RF0001-"); return }

// ---------------------------------------------------------------- outgoing connections

func dialCase(k int) {
	r := run.Rand("dial", k)
	label := fmt.Sprintf("dial-%d", k)
	run.CaseStart(label)
	limit := []int{1, 2, 3, 5}[r.Intn(4)]
	nl := limit + 2 + r.Intn(6)
	maxAddr := 1 + r.Intn(6)
	worstAddr := 0
	dir := filepath.Join(run.Work, label)
	os.MkdirAll(dir, 0o755)
	defer os.RemoveAll(dir)
	s, _, err := sess.New(sess.Opts{Dir: dir, Storage: memstore.NewProvider(filepath.Join(dir, "m")), Mutate: func(c *torrent.Config) {
		c.MaxPeerDial = limit
		c.MaxPeerAddresses = maxAddr
		c.DisableOutgoingEncryption = true
		c.PeerHandshakeTimeout = 300 * time.Millisecond
		c.PeerConnectTimeout = time.Second
	}})
	if err != nil {
		run.Inconclusive(label + ": " + err.Error())
		run.CaseEnd(label)
		return
	}
	_, _, info, tb := mkTorrent(r, k, 100000, nil)
	ih := gen.InfoHash(info)
	tab := &connTable{}
	var lns []net.Listener
	var addrs []string
	kinds := []string{"hold", "hold", "stall", "garbage", "close"}
	var accepted atomic.Int64
	for i := 0; i < nl; i++ {
		ln, err := net.Listen("tcp4", sess.NextIP()+":0")
		if err != nil {
			continue
		}
		lns = append(lns, ln)
		addrs = append(addrs, ln.Addr().String())
		kind := kinds[r.Intn(len(kinds))]
		go func() {
			for {
				c, err := ln.Accept()
				if err != nil {
					return
				}
				accepted.Add(1)
				tc := tab.add(kind, c)
				go func() {
					switch kind {
					case "hold":
						if _, err := refwire.ReadHandshake(c); err == nil {
							c.Write(refwire.Handshake(refwire.ReservedBits(true, false, false), ih, randID()))
						}
					case "garbage":
						g := make([]byte, 68)
						rand.Read(g)
						c.Write(g)
					case "close":
						c.Close()
					}
					drain(tc)
				}()
			}
		}()
	}
	t, err := s.AddTorrent(bytes.NewReader(tb), &torrent.AddTorrentOptions{Stopped: true})
	if err != nil {
		run.Inconclusive(label + ": " + err.Error())
		s.Close()
		run.CaseEnd(label)
		return
	}
	t.Start()
	var ta []*net.TCPAddr
	for _, a := range addrs {
		x, _ := net.ResolveTCPAddr("tcp4", a)
		ta = append(ta, x)
	}
	addPeers(t, ta)
	run.Eval(1)
	t0 := time.Now()
	worstStats := 0
	viol := false
	for time.Since(t0) < 1500*time.Millisecond && !viol {
		if still := tab.confirmedAbove(limit, 250*time.Millisecond, func() { t.Stats() }); still != nil {
			if vx.CanaryWorstSince(t0) < 100*time.Millisecond {
				run.Violation("dial-limit-exceeded", fmt.Sprintf("%s: MaxPeerDial=%d but %d connections from the client stayed open together for 2 s while the event loop answered 40 calls: %s", label, limit, len(still), describe(still)), nil)
				viol = true
			} else {
				run.Inconclusive(label + ": load canary late")
			}
			break
		}
		st := t.Stats()
		if n := st.Peers.Outgoing + st.Handshakes.Outgoing; n > worstStats {
			worstStats = n
		}
		if st.Addresses.Total > worstAddr {
			worstAddr = st.Addresses.Total
		}
		time.Sleep(3 * time.Millisecond)
		// keep the address list filled: the client forgets an address once dialled
		if r.Intn(20) == 0 {
			addPeers(t, ta)
		}
	}
	if worstAddr > maxAddr {
		run.Violation("stored-addresses-above-limit", fmt.Sprintf("%s: MaxPeerAddresses=%d but Stats() reported %d stored addresses", label, maxAddr, worstAddr), nil)
	}
	if worstStats > limit {
		run.Violation("dial-limit-exceeded:stats", fmt.Sprintf("%s: MaxPeerDial=%d but Stats() reported %d outgoing peers+handshakes", label, limit, worstStats), nil)
	}
	s.Close()
	for _, ln := range lns {
		ln.Close()
	}
	// after Close every connection must be gone
	if !sess.WaitFor(3*time.Second, func() bool { return len(tab.open()) == 0 }) {
		if vx.CanaryWorstSince(t0) < 100*time.Millisecond {
			run.Violation("socket-open-after-session-close", fmt.Sprintf("%s: connections still open 3 s after Session.Close: %s", label, describe(tab.open())), nil)
		}
	}
	for _, c := range tab.open() {
		c.c.Close()
	}
	run.Count("dial_scenarios", 1)
	run.Count("outgoing_connections_observed", accepted.Load())
	run.Distinct(fmt.Sprintf("dial|%d|%d|%d", limit, nl, accepted.Load()))
	run.CaseEnd(label)
}

// ---------------------------------------------------------------- incoming connections

func acceptCase(k int) {
	r := run.Rand("accept", k)
	label := fmt.Sprintf("accept-%d", k)
	run.CaseStart(label)
	limit := []int{1, 2, 3}[r.Intn(3)]
	np := limit + 2 + r.Intn(6)
	dir := filepath.Join(run.Work, label)
	os.MkdirAll(dir, 0o755)
	defer os.RemoveAll(dir)
	hsTimeout := 300 * time.Millisecond
	s, cfg, err := sess.New(sess.Opts{Dir: dir, Storage: memstore.NewProvider(filepath.Join(dir, "m")), Mutate: func(c *torrent.Config) {
		c.MaxPeerAccept = limit
		c.PeerHandshakeTimeout = hsTimeout
	}})
	if err != nil {
		run.Inconclusive(label + ": " + err.Error())
		run.CaseEnd(label)
		return
	}
	_, _, info, tb := mkTorrent(r, k, 100000, nil)
	ih := gen.InfoHash(info)
	t, err := s.AddTorrent(bytes.NewReader(tb), &torrent.AddTorrentOptions{Stopped: true})
	if err != nil {
		run.Inconclusive(label + ": " + err.Error())
		s.Close()
		run.CaseEnd(label)
		return
	}
	t.Start()
	sess.WaitStatus(t, 5*time.Second, torrent.Downloading)
	target := sess.ListenAddr(cfg, t)
	tab := &connTable{}
	kinds := []string{"hold", "hold", "stall", "garbage", "half", "wrong-hash"}
	t0 := time.Now()
	run.Eval(1)
	var wg sync.WaitGroup
	var failed []*tconn
	var fmu sync.Mutex
	for wave := 0; wave < 2; wave++ {
		for i := 0; i < np; i++ {
			kind := kinds[r.Intn(len(kinds))]
			ip := sess.NextIP()
			wg.Add(1)
			go func() {
				defer wg.Done()
				d := net.Dialer{Timeout: 3 * time.Second, LocalAddr: &net.TCPAddr{IP: net.ParseIP(ip)}}
				c, err := d.Dial("tcp4", target)
				if err != nil {
					return
				}
				tc := tab.add(kind, c)
				switch kind {
				case "hold":
					c.Write(refwire.Handshake(refwire.ReservedBits(true, false, false), ih, randID()))
				case "garbage":
					g := make([]byte, 68)
					rand.Read(g)
					g[0] = 19 // looks like a handshake at first
					c.Write(g)
				case "half":
					c.Write(refwire.Handshake(refwire.ReservedBits(true, false, false), ih, randID())[:30])
				case "wrong-hash":
					var other [20]byte
					rand.Read(other[:])
					c.Write(refwire.Handshake(refwire.ReservedBits(true, false, false), other, randID()))
				}
				if kind != "hold" {
					fmu.Lock()
					failed = append(failed, tc)
					fmu.Unlock()
				}
				drain(tc)
			}()
		}
		// while the wave is in progress: never more than limit kept
		end := time.Now().Add(600 * time.Millisecond)
		for time.Now().Before(end) {
			if still := tab.confirmedAbove(limit, 250*time.Millisecond, func() { t.Stats() }); still != nil {
				if vx.CanaryWorstSince(t0) < 100*time.Millisecond {
					run.Violation("accept-limit-exceeded", fmt.Sprintf("%s: MaxPeerAccept=%d but %d incoming connections were kept open together for 2 s while the event loop answered 40 calls: %s", label, limit, len(still), describe(still)), nil)
				} else {
					run.Inconclusive(label + ": load canary late")
				}
				end = time.Now()
				break
			}
			st := t.Stats()
			if n := st.Peers.Incoming + st.Handshakes.Incoming; n > limit {
				run.Violation("accept-limit-exceeded:stats", fmt.Sprintf("%s: MaxPeerAccept=%d but Stats() reported %d incoming peers+handshakes", label, limit, n), nil)
				end = time.Now()
			}
			time.Sleep(3 * time.Millisecond)
		}
	}
	// a connection whose handshake failed (or never happened) is closed, not kept
	fmu.Lock()
	fl := append([]*tconn(nil), failed...)
	fmu.Unlock()
	allClosed := func() bool {
		for _, c := range fl {
			if !c.closed.Load() {
				return false
			}
		}
		return true
	}
	if !sess.WaitFor(hsTimeout+4*time.Second, allClosed) {
		var kept []*tconn
		for _, c := range fl {
			if !c.closed.Load() {
				kept = append(kept, c)
			}
		}
		if vx.CanaryWorstSince(t0) < 100*time.Millisecond {
			kindsKept := map[string]bool{}
			for _, c := range kept {
				kindsKept[c.kind] = true
			}
			var ks []string
			for k := range kindsKept {
				ks = append(ks, k)
			}
			sort.Strings(ks)
			run.Violation("failed-handshake-socket-kept", fmt.Sprintf("%s: %d incoming connections whose handshake failed (%s) are still open %v after the handshake timeout: %s", label, len(kept), strings.Join(ks, ","), 4*time.Second, describe(kept)), nil)
		} else {
			run.Inconclusive(label + ": load canary late")
		}
	}
	run.Count("failed_handshake_connections_observed_closed", int64(len(fl)))
	s.Close()
	sess.WaitFor(3*time.Second, func() bool { return len(tab.open()) == 0 })
	for _, c := range tab.open() {
		c.c.Close()
	}
	wg.Wait()
	run.Count("accept_scenarios", 1)
	run.Distinct(fmt.Sprintf("accept|%d|%d|%d", limit, np, len(fl)))
	run.CaseEnd(label)
}

// ---------------------------------------------------------------- outstanding requests per peer

func reqoutCase(k int) {
	r := run.Rand("reqout", k)
	label := fmt.Sprintf("reqout-%d", k)
	run.CaseStart(label)
	maxOut := []int{1, 3, 10, 250}[r.Intn(4)]
	dflt := []int{1, 2, 50}[r.Intn(3)]
	reqq := []int{0, 1, 5, 1000}[r.Intn(4)]
	limit := dflt
	if reqq > 0 {
		limit = reqq
	}
	if limit > maxOut {
		limit = maxOut
	}
	mode := r.Intn(3) // 0 drop everything, 1 serve every third request, 2 serve everything slowly
	serve := mode != 0
	dir := filepath.Join(run.Work, label)
	os.MkdirAll(dir, 0o755)
	defer os.RemoveAll(dir)
	s, _, err := sess.New(sess.Opts{Dir: dir, Storage: memstore.NewProvider(filepath.Join(dir, "m")), Mutate: func(c *torrent.Config) {
		c.MaxRequestsOut = maxOut
		c.DefaultRequestsOut = dflt
		c.RequestTimeout = 200 * time.Millisecond
	}})
	if err != nil {
		run.Inconclusive(label + ": " + err.Error())
		run.CaseEnd(label)
		return
	}
	l, truth, info, tb := mkTorrent(r, k, int64(300000+r.Intn(400000)), nil)
	ih := gen.InfoHash(info)
	log := &evlog.Log{}
	ln, err := refpeer.Listen("seeder", sess.NextIP(), log)
	if err != nil {
		run.Inconclusive(label + ": " + err.Error())
		s.Close()
		run.CaseEnd(label)
		return
	}
	var worst atomic.Int64
	st := &refpeer.SeederState{}
	fast := r.Intn(2) == 0
	cfgS := refpeer.SeederCfg{Content: sess.ContentOf(l, truth), Announce: "bitfield", Unchoke: "on-interested", ReqQ: reqq}
	n := 0
	cfgS.OnRequest = func(_ int, m refwire.Msg) string {
		st.Mu.Lock()
		o := int64(len(st.Outstanding))
		st.Mu.Unlock()
		if o > worst.Load() {
			worst.Store(o)
		}
		n++
		if mode == 2 || (mode == 1 && n%3 == 0) {
			return "serve"
		}
		return "drop"
	}
	if serve {
		cfgS.ChokeEvery = 2 + r.Intn(3)
		cfgS.ChokePause = 5 * time.Millisecond
		cfgS.ServeDelay = 2 * time.Millisecond
	}
	done := make(chan struct{})
	go func() {
		defer close(done)
		c, err := ln.Accept(refpeer.HSOpts{InfoHash: ih, PeerID: randID(), Fast: fast, Ext: true, Crypto: "auto"}, 5*time.Second)
		if err != nil {
			return
		}
		refpeer.RunSeeder(c, cfgS, st)
	}()
	t, err := s.AddTorrent(bytes.NewReader(tb), &torrent.AddTorrentOptions{Stopped: true})
	if err == nil {
		t.Start()
		addPeers(t, []*net.TCPAddr{ln.Addr()})
	}
	run.Eval(1)
	time.Sleep(1200 * time.Millisecond)
	s.Close()
	ln.Close()
	select {
	case <-done:
	case <-time.After(3 * time.Second):
	}
	st.Mu.Lock()
	nreq := len(st.Requests)
	st.Mu.Unlock()
	if w := worst.Load(); w > int64(limit) {
		run.Violation("outstanding-requests-above-limit", fmt.Sprintf("%s: max-requests-out=%d default=%d peer reqq=%d (limit %d): the peer held %d unanswered, uncancelled requests at once (fast=%v serve=%v)", label, maxOut, dflt, reqq, limit, w, fast, serve), nil)
	}
	if nreq == 0 {
		run.Inconclusive(label + ": no request observed")
	}
	run.Count("reqout_scenarios", 1)
	run.Count("block_requests_observed", int64(nreq))
	run.Distinct(fmt.Sprintf("reqout|%d|%d|%d|%v|%d|%d", maxOut, dflt, reqq, fast, mode, worst.Load()))
	run.CaseEnd(label)
}

// ---------------------------------------------------------------- web seeds

func webCase(k int) {
	r := run.Rand("web", k)
	label := fmt.Sprintf("web-%d", k)
	run.CaseStart(label)
	maxSrc := []int{1, 2, 5, 9, 10, 11, 12}[r.Intn(7)]
	maxDl := 1 + r.Intn(3)
	nurls := r.Intn(16)
	dir := filepath.Join(run.Work, label)
	os.MkdirAll(dir, 0o755)
	defer os.RemoveAll(dir)
	s, _, err := sess.New(sess.Opts{Dir: dir, Storage: memstore.NewProvider(filepath.Join(dir, "m")), Mutate: func(c *torrent.Config) {
		c.WebseedMaxSources = maxSrc
		c.WebseedMaxDownloads = maxDl
	}})
	if err != nil {
		run.Inconclusive(label + ": " + err.Error())
		run.CaseEnd(label)
		return
	}
	var servers []*refweb.Server
	var urls []string
	l0, truth, _, _ := mkTorrent(r, k, int64(400000+r.Intn(300000)), nil)
	for i := 0; i < nurls; i++ {
		ws, err := refweb.New(fmt.Sprintf("ws%d", i), sess.NextIP())
		if err != nil {
			continue
		}
		ws.Put(l0.Name, truth)
		ws.Behaviour = func(n int, path string, b, e int64) string { return "slow" }
		servers = append(servers, ws)
		urls = append(urls, ws.BaseURL())
	}
	_, _, _, tb := mkTorrent(r, k, int64(len(truth)), urls)
	t, err := s.AddTorrent(bytes.NewReader(tb), &torrent.AddTorrentOptions{Stopped: true})
	if err != nil {
		run.Inconclusive(label + ": " + err.Error())
		s.Close()
		run.CaseEnd(label)
		return
	}
	t.Start()
	run.Eval(1)
	t0 := time.Now()
	over := 0
	worstStat := 0
	for time.Since(t0) < 6*time.Second {
		cur := 0
		for _, ws := range servers {
			cur += int(ws.Current())
		}
		if cur > maxDl {
			over++
		} else {
			over = 0
		}
		if over >= 15 { // 15 consecutive samples, 30+ ms
			run.Violation("webseed-downloads-above-limit", fmt.Sprintf("%s: WebseedMaxDownloads=%d but %d requests were being served concurrently for 30 ms", label, maxDl, cur), nil)
			break
		}
		st := t.Stats()
		if st.Status == torrent.Seeding {
			break
		}
		_ = worstStat
		time.Sleep(2 * time.Millisecond)
	}
	used := 0
	for _, ws := range servers {
		if len(ws.Requests()) > 0 {
			used++
		}
	}
	if used > maxSrc {
		run.Violation("webseed-sources-above-limit", fmt.Sprintf("%s: WebseedMaxSources=%d, %d URLs in the torrent, %d different sources were contacted", label, maxSrc, nurls, used), nil)
	}
	if ws := t.Webseeds(); len(ws) > maxSrc {
		run.Violation("webseed-sources-above-limit:kept", fmt.Sprintf("%s: WebseedMaxSources=%d, %d URLs in the torrent, the torrent keeps %d sources", label, maxSrc, nurls, len(ws)), nil)
	}
	s.Close()
	for _, ws := range servers {
		ws.Close()
	}
	run.Count("web_scenarios", 1)
	run.Distinct(fmt.Sprintf("web|%d|%d|%d|%d", maxSrc, maxDl, nurls, used))
	run.CaseEnd(label)
}

// ---------------------------------------------------------------- rate limits

func rateCase(k int) {
	r := run.Rand("rate", k)
	label := fmt.Sprintf("rate-%d", k)
	run.CaseStart(label)
	rate := int64([]int{32, 48, 64}[r.Intn(3)]) // KiB/s, as configured
	upload := k%2 == 0
	dir := filepath.Join(run.Work, label)
	os.MkdirAll(dir, 0o755)
	defer os.RemoveAll(dir)
	prov := memstore.NewProvider(filepath.Join(dir, "m"))
	s, cfg, err := sess.New(sess.Opts{Dir: dir, Storage: prov, Mutate: func(c *torrent.Config) {
		if upload {
			c.SpeedLimitUpload = rate
		} else {
			c.SpeedLimitDownload = rate
		}
	}})
	if err != nil {
		run.Inconclusive(label + ": " + err.Error())
		run.CaseEnd(label)
		return
	}
	total := int64(rate * 1024 * 3) // three seconds worth beyond the burst
	l, truth, info, tb := mkTorrent(r, k, total, nil)
	ih := gen.InfoHash(info)
	log := &evlog.Log{}
	bps := rate * 1024
	const slack = 2 * 16384 // one block being written / read when the sample is taken, plus framing
	run.Eval(1)
	var t0 time.Time
	check := func(bytes int64, what string) bool {
		el := time.Since(t0)
		allowed := bps + int64(float64(bps)*el.Seconds()) + slack // one second of burst + rate * elapsed
		if bytes > allowed {
			run.Violation("rate-limit-exceeded:"+what, fmt.Sprintf("%s: limit %d KiB/s: %d bytes %s within %v of the start (allowed with 1 s burst: %d)", label, rate, bytes, what, el.Round(time.Millisecond), allowed), nil)
			return false
		}
		return true
	}
	if upload {
		// the client seeds: content is planted, a reference leecher requests everything as fast as it can
		tid := fmt.Sprintf("rate%d", k)
		plant(prov, tid, l, truth)
		t, err := s.AddTorrent(bytes.NewReader(tb), &torrent.AddTorrentOptions{Stopped: true, ID: tid})
		if err != nil {
			run.Inconclusive(label + ": " + err.Error())
			s.Close()
			run.CaseEnd(label)
			return
		}
		t.Start()
		if _, ok := sess.WaitStatus(t, 10*time.Second, torrent.Seeding); !ok {
			run.Inconclusive(label + ": planted content did not verify")
			s.Close()
			run.CaseEnd(label)
			return
		}
		t0 = time.Now()
		c, err := refpeer.Dial("leecher", sess.NextIP(), sess.ListenAddr(cfg, t), refpeer.HSOpts{InfoHash: ih, PeerID: randID(), Fast: true, Ext: false, Crypto: "plain"}, log)
		if err != nil {
			run.Inconclusive(label + ": dial: " + err.Error())
			s.Close()
			run.CaseEnd(label)
			return
		}
		c.Send(refwire.Msg{ID: refwire.Interested})
		var got int64
		requested := false
		dl := time.Now().Add(5 * time.Second)
		for time.Now().Before(dl) {
			m, err := c.Read(500 * time.Millisecond)
			if err != nil {
				if ne, ok := err.(net.Error); ok && ne.Timeout() {
					continue
				}
				break
			}
			if m.ID == refwire.Unchoke && !requested {
				requested = true
				go func() {
					for p := 0; p < l.NumPieces(); p++ {
						pl := int64(l.PieceLen)
						if off := int64(p) * pl; off+pl > total {
							pl = total - off
						}
						for b := int64(0); b < pl; b += 16384 {
							n := int64(16384)
							if b+n > pl {
								n = pl - b
							}
							c.Send(refwire.Msg{ID: refwire.Request, Index: uint32(p), Begin: uint32(b), Length: uint32(n)})
						}
					}
				}()
			}
			if m.ID == refwire.Piece {
				got += int64(len(m.Data))
				if !check(got, "received-by-peer") {
					break
				}
			}
			if got >= total {
				break
			}
		}
		c.Close()
		run.Count("upload_bytes_observed", got)
		if got == 0 {
			run.Inconclusive(label + ": nothing uploaded")
		}
	} else {
		ln, err := refpeer.Listen("seeder", sess.NextIP(), log)
		if err != nil {
			run.Inconclusive(label + ": " + err.Error())
			s.Close()
			run.CaseEnd(label)
			return
		}
		go func() {
			c, err := ln.Accept(refpeer.HSOpts{InfoHash: ih, PeerID: randID(), Fast: true, Ext: true, Crypto: "auto"}, 5*time.Second)
			if err != nil {
				return
			}
			refpeer.RunSeeder(c, refpeer.SeederCfg{Content: sess.ContentOf(l, truth), Announce: "bitfield", Unchoke: "on-interested", ReqQ: 250}, &refpeer.SeederState{})
		}()
		t, err := s.AddTorrent(bytes.NewReader(tb), &torrent.AddTorrentOptions{Stopped: true})
		if err != nil {
			run.Inconclusive(label + ": " + err.Error())
			s.Close()
			run.CaseEnd(label)
			return
		}
		t0 = time.Now()
		t.Start()
		addPeers(t, []*net.TCPAddr{ln.Addr()})
		var last int64
		for time.Since(t0) < 5*time.Second {
			st := t.Stats()
			last = st.Bytes.Downloaded
			if !check(last, "downloaded") || st.Status == torrent.Seeding {
				break
			}
			time.Sleep(5 * time.Millisecond)
		}
		ln.Close()
		run.Count("download_bytes_observed", last)
		if last == 0 {
			run.Inconclusive(label + ": nothing downloaded")
		}
	}
	s.Close()
	run.Count("rate_scenarios", 1)
	run.Distinct(fmt.Sprintf("rate|%d|%v", rate, upload))
	run.CaseEnd(label)
}

func plant(prov *memstore.Provider, id string, l *gen.Layout, truth []byte) {
	st := prov.Get(id)
	for i := range l.Files {
		off, end := l.FileRange(i)
		st.Put(filepath.FromSlash(l.JoinedPath(i)), truth[off:end])
	}
}

// ---------------------------------------------------------------- configuration lattice

func cfgCase(k int) {
	r := run.Rand("cfg", k)
	label := fmt.Sprintf("cfg-%d", k)
	dir := filepath.Join(run.Work, label)
	os.MkdirAll(dir, 0o755)
	defer os.RemoveAll(dir)
	var desc []string
	pickI := func(name string, p *int, vals ...int) {
		if r.Intn(3) == 0 {
			*p = vals[r.Intn(len(vals))]
			desc = append(desc, fmt.Sprintf("%s=%d", name, *p))
		}
	}
	pick64 := func(name string, p *int64, vals ...int64) {
		if r.Intn(3) == 0 {
			*p = vals[r.Intn(len(vals))]
			desc = append(desc, fmt.Sprintf("%s=%d", name, *p))
		}
	}
	mut := func(c *torrent.Config) {
		pickI("unchoked-peers", &c.UnchokedPeers, 1, 2)
		pickI("optimistic-unchoked-peers", &c.OptimisticUnchokedPeers, 1, 2)
		pickI("max-requests-in", &c.MaxRequestsIn, 1, 2, 1000)
		pickI("max-requests-out", &c.MaxRequestsOut, 1, 2, 1000)
		pickI("default-requests-out", &c.DefaultRequestsOut, 1, 2, 1000)
		pickI("endgame-max-duplicate-downloads", &c.EndgameMaxDuplicateDownloads, 1, 2, 50)
		pickI("max-peer-dial", &c.MaxPeerDial, 1, 2)
		pickI("max-peer-accept", &c.MaxPeerAccept, 1, 2)
		pickI("parallel-metadata-downloads", &c.ParallelMetadataDownloads, 1, 5)
		pickI("max-peer-addresses", &c.MaxPeerAddresses, 1, 2, 3)
		pickI("allowed-fast-set", &c.AllowedFastSet, 1, 3, 1000)
		pick64("read-cache-block-size", &c.ReadCacheBlockSize, 1, 100, 16384, 1<<20)
		pick64("read-cache-size", &c.ReadCacheSize, 1, 16384, 1<<20)
		pick64("write-cache-size", &c.WriteCacheSize, 32768, 65536, 1<<30)
		pickI("webseed-max-sources", &c.WebseedMaxSources, 1, 2, 9, 11)
		pickI("webseed-max-downloads", &c.WebseedMaxDownloads, 1, 2)
		pickI("tracker-num-want", &c.TrackerNumWant, 1, 200)
		pick64("speed-limit-download", &c.SpeedLimitDownload, 1, 16, 100000)
		pick64("speed-limit-upload", &c.SpeedLimitUpload, 1, 16, 100000)
		if r.Intn(3) == 0 {
			c.ParallelReads = uint(1 + r.Intn(2))
			c.ParallelWrites = uint(1 + r.Intn(2))
			desc = append(desc, fmt.Sprintf("parallel-reads=%d parallel-writes=%d", c.ParallelReads, c.ParallelWrites))
		}
		if r.Intn(4) == 0 {
			c.ReadCacheTTL = time.Millisecond
			desc = append(desc, "read-cache-ttl=1ms")
		}
	}
	prov := memstore.NewProvider(filepath.Join(dir, "m"))
	s, cfg, err := sess.New(sess.Opts{Dir: dir, Storage: prov, Mutate: mut})
	caseLabel := label + " " + strings.Join(desc, " ")
	run.CaseStart(caseLabel)
	if err != nil {
		run.Count("configurations_refused", 1)
		run.CaseEnd(caseLabel)
		return
	}
	run.Eval(1)
	tStart := time.Now()
	nurls := r.Intn(13)
	l0, truth, _, _ := mkTorrent(r, k, int64(100000+r.Intn(150000)), nil)
	var servers []*refweb.Server
	var urls []string
	for i := 0; i < nurls; i++ {
		ws, err := refweb.New(fmt.Sprintf("ws%d", i), sess.NextIP())
		if err != nil {
			continue
		}
		ws.Put(l0.Name, truth)
		servers = append(servers, ws)
		urls = append(urls, ws.BaseURL())
	}
	l, _, info, tb := mkTorrent(r, k, int64(len(truth)), urls)
	ih := gen.InfoHash(info)
	log := &evlog.Log{}
	ln, _ := refpeer.Listen("seeder", sess.NextIP(), log)
	if ln != nil {
		go func() {
			for {
				c, err := ln.Accept(refpeer.HSOpts{InfoHash: ih, PeerID: randID(), Fast: r.Intn(2) == 0, Ext: true, Crypto: "auto"}, 4*time.Second)
				if err != nil {
					return
				}
				go refpeer.RunSeeder(c, refpeer.SeederCfg{Content: sess.ContentOf(l, truth), Announce: "bitfield", Unchoke: "on-interested", Metadata: info, ChokeEvery: 3, ChokePause: 5 * time.Millisecond}, &refpeer.SeederState{})
			}
		}()
	}
	var t *torrent.Torrent
	if r.Intn(3) == 0 && ln != nil {
		t, err = s.AddURI(fmt.Sprintf("magnet:?xt=urn:btih:%x", ih), &torrent.AddTorrentOptions{Stopped: true})
	} else {
		t, err = s.AddTorrent(bytes.NewReader(tb), &torrent.AddTorrentOptions{Stopped: true})
	}
	if err == nil {
		t.Start()
		if ln != nil {
			addPeers(t, []*net.TCPAddr{ln.Addr()})
		}
		// a leecher asks for data once the client has some
		go func() {
			time.Sleep(150 * time.Millisecond)
			c, err := refpeer.Dial("leecher", sess.NextIP(), sess.ListenAddr(cfg, t), refpeer.HSOpts{InfoHash: ih, PeerID: randID(), Fast: true, Ext: true, Crypto: "plain"}, log)
			if err != nil {
				return
			}
			defer c.Close()
			c.Send(refwire.Msg{ID: refwire.Interested})
			for i := 0; i < 40; i++ {
				m, err := c.Read(100 * time.Millisecond)
				if err != nil {
					if ne, ok := err.(net.Error); ok && ne.Timeout() {
						continue
					}
					return
				}
				if m.ID == refwire.Unchoke {
					for p := 0; p < 3; p++ {
						c.Send(refwire.Msg{ID: refwire.Request, Index: uint32(p % l.NumPieces()), Begin: 0, Length: 16384})
					}
				}
			}
		}()
		stopSampler := make(chan struct{})
		samplerDone := make(chan struct{})
		go func() {
			defer close(samplerDone)
			for {
				select {
				case <-stopSampler:
					return
				default:
				}
				ss := s.Stats()
				if ss.WriteCacheSize > cfg.WriteCacheSize || ss.WriteCacheSize < 0 || ss.WriteCacheObjects < 0 {
					run.Violation("piece-memory-above-limit", fmt.Sprintf("%s: write-cache-size=%d but the session reports %d bytes / %d objects reserved", caseLabel, cfg.WriteCacheSize, ss.WriteCacheSize, ss.WriteCacheObjects), nil)
					return
				}
				if ss.ReadCacheSize > cfg.ReadCacheSize || ss.ReadCacheSize < 0 {
					run.Violation("read-cache-above-limit:session", fmt.Sprintf("%s: read-cache-size=%d but the session reports %d", caseLabel, cfg.ReadCacheSize, ss.ReadCacheSize), nil)
					return
				}
				ts := t.Stats()
				if ts.Peers.Outgoing+ts.Handshakes.Outgoing > cfg.MaxPeerDial || ts.Peers.Incoming+ts.Handshakes.Incoming > cfg.MaxPeerAccept || ts.Addresses.Total > cfg.MaxPeerAddresses {
					run.Violation("counter-above-limit:stats", fmt.Sprintf("%s: peers %+v handshakes %+v addresses %+v", caseLabel, ts.Peers, ts.Handshakes, ts.Addresses), nil)
					return
				}
				time.Sleep(2 * time.Millisecond)
			}
		}()
		completed := sess.WaitFor(1500*time.Millisecond, func() bool { return t.Stats().Status == torrent.Seeding })
		if completed {
			run.Count("configurations_completed", 1)
		}
		time.Sleep(time.Duration(r.Intn(100)) * time.Millisecond)
		close(stopSampler)
		<-samplerDone
		// balance: once the torrent is stopped nothing may stay reserved
		t.Stop()
		if _, ok := sess.WaitStatus(t, 5*time.Second, torrent.Stopped); ok {
			bal := func() bool { ss := s.Stats(); return ss.WriteCacheSize == 0 && ss.WriteCacheObjects == 0 }
			if !sess.WaitFor(2*time.Second, bal) && vx.CanaryWorstSince(tStart) < 100*time.Millisecond {
				ss := s.Stats()
				run.Violation("piece-memory-not-released", fmt.Sprintf("%s: torrent stopped, still %d bytes / %d objects reserved for pieces", caseLabel, ss.WriteCacheSize, ss.WriteCacheObjects), nil)
			}
		}
	} else {
		run.Count("add_refused", 1)
	}
	s.Close()
	if ln != nil {
		ln.Close()
	}
	for _, ws := range servers {
		ws.Close()
	}
	run.Count("cfg_scenarios", 1)
	run.Distinct("cfg|" + strings.Join(desc, " "))
	run.CaseEnd(caseLabel)
}

var _ = io.EOF
