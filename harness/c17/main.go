// C17: configured limits and reservation balance. Component histories against
// counting models (write-buffer manager with porcupine, read cache, upload
// request queue) and session scenarios with small limits observed from
// reference endpoints (connection tables, request counters, web servers, byte
// counters), each batch in a child process.
package main

import (
	"fmt"
	"sync"
	"time"

	"github.com/cenkalti/rain/v2/internal/logger"
	"github.com/cenkalti/rain/v2/verifx/vx"
)

var run *vx.Run

func main() {
	run = vx.Begin("C17", "exploration",
		"components: write-buffer manager histories (2-4 clients, limit 1-6, request/queue/cancel/grant/release/stats) checked by conservation + porcupine; read cache under 4 concurrent readers with sizes around the limit, 1 ms expiry and Clear; upload request queue with the socket blocked. sessions with small limits and reference endpoints: MaxPeerDial 1-5 vs 3-13 listeners (hold/stall/garbage/close), MaxPeerAccept 1-3 vs two waves of 3-9 dialers (hold/stall/garbage/half/wrong-hash) incl. closure of failed handshakes, outstanding requests per peer vs min(max-requests-out, reqq|default) at a seeder that drops or serves slowly with choke storms, WebseedMaxSources 1-12 x 0-15 URLs x WebseedMaxDownloads 1-3, download/upload rate limits 32-64 KiB/s anchored at the start with 1 s burst, configuration lattice of small legal values (crash oracle). distinct = distinct parameter/observation tuples")
	logger.Disable()
	vx.StartCanary()
	roles := map[string]func(int){"rm": rmCase, "cache": cacheCase, "pw": pwCase, "dial": dialCase, "accept": acceptCase, "reqout": reqoutCase, "web": webCase, "rate": rateCase, "cfg": cfgCase}
	if f, ok := roles[vx.ChildRole()]; ok {
		lo, hi := vx.ChildRange()
		for k := lo; k < hi; k++ {
			if run.Violations() >= 5 {
				break
			}
			f(k)
		}
		run.Finish(0)
	}
	crash := func(res vx.ChildResult, k int, logp string) {
		run.Violation("crash:"+vx.NormalisePanic(res.PanicText)+"|"+res.RainFrame, fmt.Sprintf("%s: client crashed: %s at %s (log %s)", res.OpenCase, res.PanicText, res.RainFrame, logp), map[string]any{"tail": res.Tail})
	}
	type job struct {
		role     string
		n, procs int
		per      time.Duration
	}
	jobs := []job{
		{"rm", run.N(1500, 200000), 2, time.Second},
		{"cache", run.N(150, 20000), 2, 2 * time.Second},
		{"pw", run.N(600, 100000), 1, time.Second},
		{"dial", run.N(16, 1500), 4, 15 * time.Second},
		{"accept", run.N(16, 1000), 4, 20 * time.Second},
		{"reqout", run.N(24, 2500), 4, 15 * time.Second},
		{"web", run.N(16, 600), 4, 20 * time.Second},
		{"rate", run.N(4, 60), 2, 30 * time.Second},
		{"cfg", run.N(120, 4000), 6, 15 * time.Second},
	}
	var wg sync.WaitGroup
	for _, j := range jobs {
		wg.Add(1)
		go func(j job) {
			defer wg.Done()
			run.RunChildren(j.role, j.n, j.procs, j.role+"-", j.per, crash)
		}(j)
	}
	wg.Wait()
	run.Assume("a connection counts as open on the reference side from accept/connect until its reader saw EOF; a limit is judged exceeded only when the same connections stay open together for 2 s during which the torrent's event loop answered 40 Stats() calls (load canary < 100 ms)")
	run.Assume("rates are judged from the start of the transfer: bytes(t) <= rate*(t-t0) + 1 s burst + 2 blocks")
	run.Assume("configuration lattice uses values >= 1 for every limit (zero is not claimed legal)")
	run.Finish(500)
}
