package main

import (
	"encoding/binary"
	"fmt"
	"io"
	"math/rand"
	"net"
	"sort"
	"runtime"
	"sync"
	"sync/atomic"
	"time"

	"github.com/anishathalye/porcupine"
	"github.com/cenkalti/rain/v2/internal/logger"
	"github.com/cenkalti/rain/v2/internal/peerconn/peerwriter"
	"github.com/cenkalti/rain/v2/internal/peerprotocol"
	"github.com/cenkalti/rain/v2/internal/piececache"
	"github.com/cenkalti/rain/v2/internal/resourcemanager"
	"github.com/cenkalti/rain/v2/verifx/vx"
)

// ------------------------------------------------------------ resource manager (memory for pieces being downloaded)

type rmIn struct {
	Op string // request | grant | release | stats
	N  int64
}
type rmOut struct {
	Acquired  bool
	Allocated int64
	Objects   int
}

// One history: 2-4 clients request / cancel / release against a small limit. Every
// grant (immediate or by notification) is recorded; the harness' own running sum of
// held resources is a lower bound of what the manager has handed out.
func rmCase(k int) {
	r := run.Rand("rm", k)
	label := fmt.Sprintf("rm-%d", k)
	run.CaseStart(label)
	limit := int64(1 + r.Intn(6))
	m := resourcemanager.New[int](limit)
	nclients := 2 + r.Intn(3)
	var clock atomic.Int64
	var held atomic.Int64
	var maxHeld atomic.Int64
	var mu sync.Mutex
	var ops []porcupine.Operation
	rec := func(c int, in rmIn, out rmOut, call, ret int64) {
		mu.Lock()
		ops = append(ops, porcupine.Operation{ClientId: c, Input: in, Output: out, Call: call, Return: ret})
		mu.Unlock()
	}
	note := func(n int64) {
		h := held.Add(n)
		for {
			o := maxHeld.Load()
			if h <= o || maxHeld.CompareAndSwap(o, h) {
				break
			}
		}
	}
	var wg sync.WaitGroup
	for c := 0; c < nclients; c++ {
		wg.Add(1)
		cr := rand.New(rand.NewSource(r.Int63()))
		go func(c int) {
			defer wg.Done()
			notifyC := make(chan int)
			var mine []int64
			sizes := map[int]int64{} // request id -> n
			nextID := c * 1000
			// a grant may race with a cancel: whoever receives it owns it (and must release it)
			granted := func(id int, since int64) {
				n := sizes[id]
				note(n)
				rec(c, rmIn{"grant", n}, rmOut{Acquired: true}, since, clock.Add(1))
				mine = append(mine, n)
			}
			for i := 0; i < 3+cr.Intn(5); i++ {
				switch cr.Intn(7) {
				case 0, 1, 2, 3:
					n := int64(cr.Intn(int(limit) + 2)) // may exceed the limit: never granted
					cancelC := make(chan struct{})
					nextID++
					id := nextID
					sizes[id] = n
					// the requester may already be gone when it asks (a peer that disconnected before the torrent loop
					// noticed), or leave while the manager is answering: the answer and the booking must stay one event
					early := cr.Intn(5) == 0
					if early {
						if cr.Intn(2) == 0 {
							close(cancelC)
						} else {
							go func() { runtime.Gosched(); close(cancelC) }()
						}
						run.Count("rm_requests_with_requester_gone", 1)
					}
					call := clock.Add(1)
					acq := m.Request(fmt.Sprintf("key%d", cr.Intn(2)), id, n, notifyC, cancelC)
					if acq {
						note(n)
					}
					ret := clock.Add(1)
					rec(c, rmIn{"request", n}, rmOut{Acquired: acq}, call, ret)
					if acq {
						mine = append(mine, n)
						continue
					}
					if early {
						continue
					}
					// queued: wait a little for a grant, otherwise cancel
					select {
					case got := <-notifyC:
						granted(got, call)
						if got != id {
							close(cancelC)
						}
					case <-time.After(time.Duration(cr.Intn(3)) * time.Millisecond):
						close(cancelC)
					}
				case 4, 5:
					if len(mine) > 0 {
						n := mine[len(mine)-1]
						mine = mine[:len(mine)-1]
						call := clock.Add(1)
						note(-n)
						m.Release(n)
						rec(c, rmIn{"release", n}, rmOut{}, call, clock.Add(1))
					}
				default:
					call := clock.Add(1)
					st := m.Stats()
					rec(c, rmIn{"stats", 0}, rmOut{Allocated: st.AllocatedSize, Objects: st.AllocatedObjects}, call, clock.Add(1))
					if st.AllocatedSize < 0 || st.AllocatedSize > limit || st.AllocatedObjects < 0 {
						run.Violation("manager-counter-out-of-range", fmt.Sprintf("%s: Stats() = %+v with limit %d", label, st, limit), nil)
					}
				}
			}
			// grants that raced with their cancel
			for {
				select {
				case got := <-notifyC:
					granted(got, 0)
					continue
				case <-time.After(2 * time.Millisecond):
				}
				break
			}
			for _, n := range mine {
				call := clock.Add(1)
				note(-n)
				m.Release(n)
				rec(c, rmIn{"release", n}, rmOut{}, call, clock.Add(1))
			}
		}(c)
	}
	wg.Wait()
	run.Eval(1)
	if mh := maxHeld.Load(); mh > limit {
		run.Violation("reserved-above-limit", fmt.Sprintf("%s: clients held %d units at once, limit %d", label, mh, limit), nil)
	}
	st := m.Stats()
	if st.AllocatedSize != 0 || st.AllocatedObjects != 0 {
		run.Violation("reservations-do-not-balance", fmt.Sprintf("%s: everything was released, manager reports %+v", label, st), nil)
	}
	m.Close()
	model := porcupine.Model{
		Init: func() any { return [2]int64{limit, 0} }, // free, objects
		Step: func(st, in, out any) (bool, any) {
			s, i, o := st.([2]int64), in.(rmIn), out.(rmOut)
			switch i.Op {
			case "request":
				if o.Acquired {
					if i.N > s[0] {
						return false, s
					}
					return true, [2]int64{s[0] - i.N, s[1] + 1}
				}
				return true, s // queued or cancelled: no effect (a request that fits may still queue behind nobody: not demanded)
			case "grant":
				if i.N > s[0] {
					return false, s
				}
				return true, [2]int64{s[0] - i.N, s[1] + 1}
			case "release":
				return true, [2]int64{s[0] + i.N, s[1] - 1}
			default:
				return o.Allocated == limit-s[0] && int64(o.Objects) == s[1], s
			}
		},
		DescribeOperation: func(in, out any) string { return fmt.Sprintf("%+v -> %+v", in, out) },
	}
	res, _ := porcupine.CheckOperationsVerbose(model, ops, 10*time.Second)
	switch res {
	case porcupine.Unknown:
		run.Inconclusive(label + ": linearizability checker timed out")
	case porcupine.Illegal:
		sort.Slice(ops, func(i, j int) bool { return ops[i].Call < ops[j].Call })
		var lines []string
		for _, o := range ops {
			lines = append(lines, fmt.Sprintf("c%d [%d,%d] %+v -> %+v", o.ClientId, o.Call, o.Return, o.Input, o.Output))
		}
		run.Violation("manager-history-not-linearizable", fmt.Sprintf("%s: limit %d: the recorded request/grant/release/stats history has no order in which every grant fits the free amount and Stats() matches", label, limit), map[string]any{"history": lines})
	default:
		run.Count("rm_histories", 1)
		run.Count("rm_ops", int64(len(ops)))
		run.Distinct("rm|" + vx.Hash(fmt.Sprint(ops)))
	}
	run.CaseEnd(label)
}

// ------------------------------------------------------------ read cache size

func cacheCase(k int) {
	r := run.Rand("cache", k)
	label := fmt.Sprintf("cache-%d", k)
	run.CaseStart(label)
	maxSize := int64(1 + r.Intn(200))
	ttl := []time.Duration{time.Millisecond, 5 * time.Millisecond, time.Hour}[r.Intn(3)]
	c := piececache.New(maxSize, ttl, uint(1+r.Intn(3)))
	var worst atomic.Int64
	stop := make(chan struct{})
	var swg sync.WaitGroup
	swg.Add(1)
	go func() {
		defer swg.Done()
		for {
			select {
			case <-stop:
				return
			default:
			}
			if s := c.Size(); s > worst.Load() {
				worst.Store(s)
			}
			if s := c.Size(); s < 0 {
				worst.Store(-1 << 40)
			}
		}
	}()
	var wg sync.WaitGroup
	var bad atomic.Value
	for g := 0; g < 4; g++ {
		wg.Add(1)
		gr := rand.New(rand.NewSource(r.Int63()))
		go func() {
			defer wg.Done()
			for i := 0; i < 150; i++ {
				key := gr.Intn(12)
				size := 1 + (key*37)%int(maxSize+maxSize/2+1) // some larger than the cache
				v, err := c.Get(fmt.Sprint(key), func() ([]byte, error) {
					b := make([]byte, size)
					for j := range b {
						b[j] = byte(key)
					}
					return b, nil
				})
				if err != nil || len(v) != size || (size > 0 && v[0] != byte(key)) {
					bad.Store(fmt.Sprintf("key %d: got %d bytes (first %v) want %d", key, len(v), v[:min(len(v), 1)], size))
				}
				if s := c.Size(); s > maxSize || s < 0 {
					worst.Store(s)
				}
				if gr.Intn(40) == 0 {
					c.Clear()
				}
			}
		}()
	}
	wg.Wait()
	close(stop)
	swg.Wait()
	run.Eval(1)
	if w := worst.Load(); w > maxSize || w < 0 {
		run.Violation("read-cache-above-limit", fmt.Sprintf("%s: Size() reported %d with maximum %d", label, w, maxSize), nil)
	}
	if b := bad.Load(); b != nil {
		run.Violation("read-cache-wrong-value", fmt.Sprintf("%s: %v", label, b), nil)
	}
	c.Clear()
	if c.Size() != 0 || c.Len() != 0 {
		run.Violation("read-cache-not-empty-after-clear", fmt.Sprintf("%s: size %d len %d after Clear", label, c.Size(), c.Len()), nil)
	}
	c.Close()
	run.Count("cache_histories", 1)
	run.Distinct("cache|" + vx.Hash(maxSize, ttl, worst.Load()))
	run.CaseEnd(label)
}

// ------------------------------------------------------------ upload request queue per peer

type zeroReader struct{}

func (zeroReader) ReadAt(p []byte, off int64) (int, error) { return len(p), nil }

// The writer is blocked on an unbuffered pipe while K requests are queued; afterwards
// the pipe is drained: at most max (+1 already handed to the socket writer) pieces may
// come out; with the fast extension every other request is answered by exactly one reject.
func pwCase(k int) {
	r := run.Rand("pw", k)
	label := fmt.Sprintf("pw-%d", k)
	run.CaseStart(label)
	max := 1 + r.Intn(6)
	fast := r.Intn(2) == 0
	nreq := max + 1 + r.Intn(10)
	a, b := net.Pipe()
	w := peerwriter.New(a, logger.New("pw"), max, fast, nil)
	go w.Run()
	go func() {
		for range w.Messages() {
		}
	}()
	// cancels for requests that are not queued (never made, already cancelled) must not free queue slots
	bogus := r.Intn(5)
	for i := 0; i < bogus; i++ {
		if r.Intn(2) == 0 {
			w.CancelRequest(peerprotocol.CancelMessage{RequestMessage: peerprotocol.RequestMessage{Index: uint32(1000 + i), Begin: 0, Length: 16384}})
			bogus--
			i--
			if bogus <= 0 {
				break
			}
		}
	}
	for i := 0; i < nreq; i++ {
		w.SendPiece(peerprotocol.RequestMessage{Index: uint32(i), Begin: 0, Length: 16384}, zeroReader{})
		if bogus > 0 && r.Intn(3) == 0 {
			w.CancelRequest(peerprotocol.CancelMessage{RequestMessage: peerprotocol.RequestMessage{Index: uint32(2000 + i), Begin: 0, Length: 16384}})
			bogus--
		}
	}
	cancels := 0
	if r.Intn(3) == 0 {
		// cancel one that is (probably) still queued, twice
		cm := peerprotocol.CancelMessage{RequestMessage: peerprotocol.RequestMessage{Index: uint32(max - 1), Begin: 0, Length: 16384}}
		w.CancelRequest(cm)
		w.CancelRequest(cm)
		cancels = 1
		// the freed slot may be taken again, the doubly cancelled one must not free a second slot
		for i := 0; i < 3; i++ {
			w.SendPiece(peerprotocol.RequestMessage{Index: uint32(3000 + i), Begin: 0, Length: 16384}, zeroReader{})
		}
		nreq += 3
	}
	w.SendMessage(peerprotocol.HaveMessage{Index: 7}) // marker: everything queued before it has been decided
	pieces, rejects := 0, 0
	seen := map[uint32]int{}
	b.SetReadDeadline(time.Now().Add(20 * time.Second))
	for {
		var hdr [5]byte
		if _, err := io.ReadFull(b, hdr[:4]); err != nil {
			run.Inconclusive(label + ": marker not received: " + err.Error())
			break
		}
		n := binary.BigEndian.Uint32(hdr[:4])
		if n == 0 {
			continue
		}
		body := make([]byte, n)
		if _, err := io.ReadFull(b, body); err != nil {
			break
		}
		if body[0] == 4 {
			break
		}
		switch body[0] {
		case 7:
			pieces++
			seen[binary.BigEndian.Uint32(body[1:5])]++
		case 16:
			rejects++
			seen[binary.BigEndian.Uint32(body[1:5])]++
		}
	}
	w.Stop()
	b.Close()
	run.Eval(1)
	if pieces > max+1 {
		run.Violation("upload-queue-above-limit", fmt.Sprintf("%s: %d requests queued while the socket was blocked, limit %d: %d pieces were sent", label, nreq, max, pieces), nil)
	}
	for idx, n := range seen {
		if n > 1 {
			run.Violation("request-answered-twice", fmt.Sprintf("%s: request %d answered %d times", label, idx, n), nil)
		}
	}
	if fast && pieces+rejects+cancels < nreq {
		run.Violation("request-never-answered", fmt.Sprintf("%s: fast peer: %d requests, %d pieces + %d rejects + %d cancelled", label, nreq, pieces, rejects, cancels), nil)
	}
	if !fast && rejects > 0 {
		run.Count("rejects_sent_without_fast_extension", int64(rejects))
	}
	run.Count("pw_histories", 1)
	run.Distinct("pw|" + vx.Hash(max, fast, nreq, pieces, rejects))
	run.CaseEnd(label)
}
