package main

import (
	"bytes"
	"crypto/rand"
	"fmt"
	"net"
	"net/http"
	"os"
	"path/filepath"
	"strings"
	"sync"
	"sync/atomic"
	"time"

	"github.com/cenkalti/rain/v2/torrent"
	"github.com/cenkalti/rain/v2/verifx/gen"
	"github.com/cenkalti/rain/v2/verifx/memstore"
	"github.com/cenkalti/rain/v2/verifx/reftracker"
	"github.com/cenkalti/rain/v2/verifx/refwire"
	"github.com/cenkalti/rain/v2/verifx/sess"
)

// Session level: a live session with a blocklist fetched from a reference HTTP
// server. Every endpoint exists twice, once on a blocked and once on an unblocked
// loopback address; the unblocked twin must be contacted (positive control),
// the blocked one never while the matching switch is on. Also: two listeners on one
// IP (at most one connection at a time), and the client's own listening address
// handed back by the tracker together with its external IP (never dialled).

type hit struct {
	ln net.Listener
	n  atomic.Int64
	mu sync.Mutex
	op int // currently open
	mx int
}

func listenCount(addr string, ih [20]byte, hold bool) (*hit, error) {
	ln, err := net.Listen("tcp4", addr)
	if err != nil {
		return nil, err
	}
	h := &hit{ln: ln}
	go func() {
		for {
			c, err := ln.Accept()
			if err != nil {
				return
			}
			h.n.Add(1)
			go func() {
				defer c.Close()
				if !hold {
					return
				}
				h.mu.Lock()
				h.op++
				if h.op > h.mx {
					h.mx = h.op
				}
				h.mu.Unlock()
				defer func() { h.mu.Lock(); h.op--; h.mu.Unlock() }()
				c.SetDeadline(time.Now().Add(3 * time.Second))
				if _, err := refwire.ReadHandshake(c); err == nil {
					var id [20]byte
					rand.Read(id[:])
					c.Write(refwire.Handshake(refwire.ReservedBits(false, false, false), ih, id))
				}
				buf := make([]byte, 1024)
				for {
					if _, err := c.Read(buf); err != nil {
						return
					}
				}
			}()
		}
	}()
	return h, nil
}

func sessionCase(k int) {
	r := run.Rand("c18s", k)
	label := fmt.Sprintf("sess-%d", k)
	run.CaseStart(label)
	defer run.CaseEndDeferred(label)
	dir := filepath.Join(run.Work, label)
	os.MkdirAll(dir, 0o755)
	defer os.RemoveAll(dir)
	swOut, swIn, swTr := r.Intn(4) != 0, r.Intn(4) != 0, r.Intn(4) != 0
	// addresses: blocked ones are covered by different rule shapes
	blockedPeer, blockedDialer, blockedTracker := sess.NextIP(), sess.NextIP(), sess.NextIP()
	okPeer, okDialer, okTracker, dupIP := sess.NextIP(), sess.NextIP(), sess.NextIP(), sess.NextIP()
	rules := []string{"# reference blocklist", blockedPeer + "/32"}
	p := strings.Split(blockedDialer, ".")
	rules = append(rules, fmt.Sprintf("%s.%s.%s.%d/31", p[0], p[1], p[2], atoi(p[3])&^1)) // a /31 around it
	rules = append(rules, blockedTracker+"/32", "garbage line", "10.0.0.0/8")
	for _, free := range []string{okPeer, okDialer, okTracker, dupIP} {
		// the /31 must not swallow a control address
		q := strings.Split(free, ".")
		if p[0] == q[0] && p[1] == q[1] && p[2] == q[2] && atoi(p[3])&^1 == atoi(q[3])&^1 {
			run.Count("address_layout_skipped", 1)
			return
		}
	}
	body := strings.Join(rules, "\n") + "\n"
	blSrv, err := net.Listen("tcp4", sess.NextIP()+":0")
	if err != nil {
		run.Inconclusive(label + ": " + err.Error())
		return
	}
	var blFetched atomic.Int64
	hs := &http.Server{Handler: http.HandlerFunc(func(w http.ResponseWriter, rq *http.Request) {
		blFetched.Add(1)
		w.Header().Set("Content-Length", fmt.Sprint(len(body)))
		w.Header().Set("Content-Type", "text/plain")
		w.Write([]byte(body))
	})}
	go hs.Serve(blSrv)
	defer hs.Close()

	l := &gen.Layout{Name: fmt.Sprintf("b%d", k), PieceLen: 32768, Seed: int64(k) + 3, Single: true, Files: []gen.FileSpec{{Length: 90000}}}
	info := l.InfoBytes(l.Truth())
	ih := gen.InfoHash(info)
	s, cfg, err := sess.New(sess.Opts{Dir: dir, Storage: memstore.NewProvider(filepath.Join(dir, "m")), Mutate: func(c *torrent.Config) {
		c.BlocklistURL = "http://" + blSrv.Addr().String() + "/list"
		c.BlocklistUpdateInterval = time.Hour
		c.BlocklistUpdateTimeout = 5 * time.Second
		c.BlocklistMaxResponseSize = 1 << 20
		c.BlocklistEnabledForOutgoingConnections = swOut
		c.BlocklistEnabledForIncomingConnections = swIn
		c.BlocklistEnabledForTrackers = swTr
		c.DisableOutgoingEncryption = true
		c.PeerHandshakeTimeout = time.Second
	}})
	if err != nil {
		run.Inconclusive(label + ": session: " + err.Error())
		return
	}
	defer s.Close()
	if !sess.WaitFor(5*time.Second, func() bool { return s.Stats().BlockListRules > 0 }) {
		run.Inconclusive(label + ": blocklist was not loaded")
		return
	}
	run.Eval(1)
	pBlocked, _ := listenCount(blockedPeer+":0", ih, true)
	pOK, _ := listenCount(okPeer+":0", ih, true)
	dupA, _ := listenCount(dupIP+":0", ih, true)
	dupB, _ := listenCount(dupIP+":0", ih, true)
	defer pBlocked.ln.Close()
	defer pOK.ln.Close()
	defer dupA.ln.Close()
	defer dupB.ln.Close()
	var ownAddr atomic.Value
	script := func(a reftracker.Announce) reftracker.Reply {
		rep := reftracker.Reply{Kind: "ok", Interval: reftracker.I(1800)}
		if oa, ok := ownAddr.Load().(*net.TCPAddr); ok {
			// the tracker tells the client its external address and lists the client itself as a peer
			rep.ExternalIP = []byte(oa.IP.To4())
			rep.Peers = []*net.TCPAddr{oa}
		}
		return rep
	}
	tBlocked, _ := reftracker.NewHTTP("blocked-tracker", blockedTracker, script)
	tOK, _ := reftracker.NewHTTP("ok-tracker", okTracker, script)
	defer tBlocked.Close()
	defer tOK.Close()
	tb := gen.TorrentBytes(info, [][]string{{fmt.Sprintf("http://%s/announce", tBlocked.Addr())}, {fmt.Sprintf("http://%s/announce", tOK.Addr())}}, nil)
	t, err := s.AddTorrent(bytes.NewReader(tb), &torrent.AddTorrentOptions{Stopped: true})
	if err != nil {
		run.Inconclusive(label + ": add: " + err.Error())
		return
	}
	own, _ := net.ResolveTCPAddr("tcp4", sess.ListenAddr(cfg, t))
	ownAddr.Store(own)
	t.Start()
	sess.WaitStatus(t, 5*time.Second, torrent.Downloading)
	for _, h := range []*hit{pBlocked, pOK, dupA, dupB} {
		t.AddPeer(h.ln.Addr().String())
	}
	t.AddPeer(own.String())
	// incoming: one dialer from a blocked, one from an unblocked address
	dialIn := func(ip string) (answered bool) {
		d := net.Dialer{Timeout: 2 * time.Second, LocalAddr: &net.TCPAddr{IP: net.ParseIP(ip)}}
		c, err := d.Dial("tcp4", own.String())
		if err != nil {
			return false
		}
		defer c.Close()
		var id [20]byte
		rand.Read(id[:])
		c.Write(refwire.Handshake(refwire.ReservedBits(false, false, false), ih, id))
		c.SetReadDeadline(time.Now().Add(2 * time.Second))
		_, err = refwire.ReadHandshake(c)
		return err == nil
	}
	inBlocked := dialIn(blockedDialer)
	inOK := dialIn(okDialer)
	time.Sleep(1200 * time.Millisecond)
	st := t.Stats()
	// ---- verdicts
	fail := func(sig, f string, a ...any) {
		run.Violation(sig, fmt.Sprintf("%s (switches out=%v in=%v trackers=%v): ", label, swOut, swIn, swTr)+fmt.Sprintf(f, a...), map[string]any{"rules": rules})
	}
	if swOut && pBlocked.n.Load() > 0 {
		fail("dialled-blocked-address", "the listener on blocked address %s received %d connections", pBlocked.ln.Addr(), pBlocked.n.Load())
	}
	if pOK.n.Load() == 0 {
		run.Inconclusive(label + ": control listener was not dialled")
		return
	}
	if !swOut && pBlocked.n.Load() > 0 {
		run.Count("control_blocked_peer_dialled_with_switch_off", 1)
	}
	if swIn && inBlocked {
		fail("accepted-blocked-address", "an incoming connection from blocked address %s was answered with a handshake", blockedDialer)
	}
	if !inOK {
		run.Inconclusive(label + ": control dialer got no handshake")
		return
	}
	if swTr && len(tBlocked.Log()) > 0 {
		fail("announced-to-blocked-address", "the tracker on blocked address %s received %d announces", tBlocked.Addr(), len(tBlocked.Log()))
	}
	if len(tOK.Log()) == 0 {
		run.Inconclusive(label + ": control tracker received no announce")
		return
	}
	if !swTr && len(tBlocked.Log()) > 0 {
		run.Count("control_blocked_tracker_announced_with_switch_off", 1)
	}
	// one connection per IP at a time
	dupA.mu.Lock()
	dupB.mu.Lock()
	both := dupA.op > 0 && dupB.op > 0
	dupA.mu.Unlock()
	dupB.mu.Unlock()
	if both {
		time.Sleep(300 * time.Millisecond)
		dupA.mu.Lock()
		dupB.mu.Lock()
		both = dupA.op > 0 && dupB.op > 0
		dupA.mu.Unlock()
		dupB.mu.Unlock()
		if both {
			fail("two-connections-to-one-ip", "two listeners on %s are both connected at the same time", dupIP)
		}
	}
	if dupA.n.Load()+dupB.n.Load() == 0 {
		run.Inconclusive(label + ": duplicate-IP listeners were never dialled")
		return
	}
	// own address: the only incoming connections are the two reference dialers (both closed by now)
	if st.Peers.Incoming+st.Handshakes.Incoming > 0 {
		fail("dialled-own-address", "the client has %d incoming peers / %d incoming handshakes although no reference peer is connecting: it dialled its own listening address %s handed out by the tracker", st.Peers.Incoming, st.Handshakes.Incoming, own)
	}
	run.Count("session_scenarios", 1)
	run.Count("blocklist_fetches_served", blFetched.Load())
	run.Distinct(fmt.Sprintf("c18s|%v|%v|%v|%d|%d|%d", swOut, swIn, swTr, min1(pBlocked.n.Load()), min1(int64(len(tBlocked.Log()))), b2i(inBlocked)))
}

func atoi(s string) int { n := 0; fmt.Sscanf(s, "%d", &n); return n }
func min1(n int64) int64 {
	if n > 1 {
		return 1
	}
	return n
}
func b2i(b bool) int {
	if b {
		return 1
	}
	return 0
}
