// C18: blocklist semantics vs a linear scan; candidate address queue vs a
// reference bounded priority set; (session-level contact checks live in the
// session harness, see DESIGN).
package main

import (
	"fmt"
	"math/rand"
	"net"
	"os"
	"runtime"
	"sort"
	"strings"
	"sync"
	"time"

	"github.com/cenkalti/rain/v2/internal/addrlist"
	"github.com/cenkalti/rain/v2/internal/blocklist"
	"github.com/cenkalti/rain/v2/internal/externalip"
	"github.com/cenkalti/rain/v2/internal/logger"
	"github.com/cenkalti/rain/v2/internal/peerpriority"
	"github.com/cenkalti/rain/v2/internal/peersource"
	"github.com/cenkalti/rain/v2/verifx/vx"
)

var run *vx.Run

type rng struct{ first, last uint32 }

func ipStr(v uint32) string { return fmt.Sprintf("%d.%d.%d.%d", v>>24, v>>16&255, v>>8&255, v&255) }
func ipOf(v uint32) net.IP  { return net.IPv4(byte(v>>24), byte(v>>16), byte(v>>8), byte(v)) }

// genList produces blocklist text and the ranges a correct parser must load from it.
func genList(r *rand.Rand) (string, []rng, int) {
	var sb strings.Builder
	var rs []rng
	n := r.Intn(40)
	if r.Intn(10) == 0 {
		n = 200 + r.Intn(300)
	}
	bad := 0
	var pool []uint32 // reuse addresses so that ranges nest / touch / duplicate
	for i := 0; i < n; i++ {
		switch r.Intn(12) {
		case 0:
			sb.WriteString("# comment 1.2.3.4/8\n")
			continue
		case 1:
			sb.WriteString(" \t \n")
			continue
		case 2:
			bads := []string{"garbage", "1.2.3/8", "1.2.3.4", "1.2.3.4/33", "300.1.1.1/8", "::1/128", "1.2.3.4/-1", "1.2.3.4/", "/8", "1.2.3.4/8/9", "2001:db8::/32", "1.2.3.4-1.2.3.9"}
			sb.WriteString(bads[r.Intn(len(bads))] + "\n")
			bad++
			continue
		}
		var ip uint32
		switch {
		case len(pool) > 0 && r.Intn(3) == 0:
			ip = pool[r.Intn(len(pool))] + uint32(r.Intn(3)) - 1
		case r.Intn(8) == 0:
			ip = []uint32{0, 0xffffffff, 0x7f000001, 0x80000000, 0x7fffffff, 0xffffff00}[r.Intn(6)]
		default:
			ip = r.Uint32()
		}
		bits := []int{0, 1, 8, 16, 24, 30, 31, 32, r.Intn(33), 24 + r.Intn(9)}[r.Intn(10)]
		if bits == 0 && r.Intn(4) != 0 {
			bits = 32
		}
		pool = append(pool, ip)
		var mask uint32
		if bits > 0 {
			mask = ^uint32(0) << (32 - bits)
		}
		first := ip & mask
		last := first | ^mask
		pool = append(pool, first, last)
		line := fmt.Sprintf("%s/%d", ipStr(ip), bits)
		if r.Intn(6) == 0 {
			line = "  " + line + " \t"
		}
		sb.WriteString(line + "\n")
		rs = append(rs, rng{first, last})
	}
	return sb.String(), rs, bad
}

func scan(rs []rng, v uint32) bool {
	for _, x := range rs {
		if v >= x.first && v <= x.last {
			return true
		}
	}
	return false
}

func blocklistCase(k int) {
	r := run.Rand("bl", k)
	bl := blocklist.New()
	var cur []rng // ranges of the currently loaded list
	reloads := 1 + r.Intn(4)
	var desc []string
	for rl := 0; rl < reloads; rl++ {
		text, rs, bad := genList(r)
		n, err := bl.Reload(strings.NewReader(text))
		if err != nil {
			// a list without one valid rule but with malformed lines is refused: the old list stays
			if len(rs) == 0 && bad > 0 {
				desc = append(desc, "refused")
			} else {
				run.Violation("reload-error", fmt.Sprintf("blocklist %d reload %d: Reload failed (%v) for a list with %d valid rules", k, rl, err, len(rs)), map[string]any{"list": text})
				return
			}
		} else {
			if n != len(rs) || bl.Len() != len(rs) {
				run.Violation("rule-count", fmt.Sprintf("blocklist %d reload %d: %d rules loaded (Len %d), list has %d valid rules", k, rl, n, bl.Len(), len(rs)), map[string]any{"list": text})
				return
			}
			cur = rs
			desc = append(desc, fmt.Sprintf("%d rules", len(rs)))
		}
		// query points: every endpoint and its neighbours, extremes, PRNG
		qs := []uint32{0, 1, 0xffffffff, 0xfffffffe, 0x7fffffff, 0x80000000}
		for _, x := range cur {
			qs = append(qs, x.first, x.first-1, x.first+1, x.last, x.last-1, x.last+1)
		}
		for i := 0; i < 60; i++ {
			qs = append(qs, r.Uint32())
		}
		for _, q := range qs {
			got := bl.Blocked(ipOf(q))
			want := scan(cur, q)
			if got != want {
				var hit []string
				for _, x := range cur {
					if q >= x.first-1 && q <= x.last+1 {
						hit = append(hit, ipStr(x.first)+"-"+ipStr(x.last))
					}
				}
				run.Violation("blocked-mismatch", fmt.Sprintf("blocklist %d reload %d: Blocked(%s)=%v, linear scan over %d loaded ranges says %v (nearby ranges %v)", k, rl, ipStr(q), got, len(cur), want, hit), map[string]any{"list": text, "query": ipStr(q)})
				return
			}
		}
		run.Count("blocklist_queries", int64(len(qs)))
		// 16-byte form of an IPv4 address and non-IPv4
		if len(cur) > 0 {
			q := cur[0].first
			if !bl.Blocked(ipOf(q).To16()) {
				run.Violation("blocked-mismatch-16byte", fmt.Sprintf("blocklist %d: Blocked(%s in 16-byte form)=false", k, ipStr(q)), nil)
				return
			}
		}
	}
	run.Distinct("bl|" + vx.Hash(k, desc))
	if k < 2 {
		run.Sample(map[string]any{"reload_sequence": desc, "ranges_loaded": len(cur)})
	}
}

// concurrent Blocked during Reload (meaningful under the race detector)
func blocklistConcurrent(k int) {
	r := run.Rand("blc", k)
	bl := blocklist.New()
	textA, rsA, _ := genList(r)
	textB, rsB, _ := genList(r)
	if len(rsA) == 0 || len(rsB) == 0 {
		return
	}
	bl.Reload(strings.NewReader(textA))
	var wg sync.WaitGroup
	stop := make(chan struct{})
	var bad sync.Map
	for g := 0; g < 4; g++ {
		wg.Add(1)
		go func(g int) {
			defer wg.Done()
			rr := rand.New(rand.NewSource(int64(k*10 + g)))
			for {
				select {
				case <-stop:
					return
				default:
				}
				q := rr.Uint32()
				got := bl.Blocked(ipOf(q))
				a, b := scan(rsA, q), scan(rsB, q)
				if got != a && got != b { // the tree is replaced atomically: either list's answer
					bad.Store(q, got)
				}
			}
		}(g)
	}
	for i := 0; i < 20; i++ {
		bl.Reload(strings.NewReader(textB))
		bl.Reload(strings.NewReader(textA))
	}
	close(stop)
	wg.Wait()
	bad.Range(func(key, v any) bool {
		run.Violation("blocked-during-reload", fmt.Sprintf("blocklist concurrent %d: Blocked(%s)=%v matches neither the old nor the new list", k, ipStr(key.(uint32)), v), nil)
		return false
	})
	run.Count("blocklist_concurrent_reloads", 40)
	run.Distinct(fmt.Sprintf("blc|%d", k))
}

// ---------------------------------------------------------------- addrlist

type elem struct {
	addr      *net.TCPAddr
	batch     int
	source    peersource.Source
	uncertain int // 0 certain, else id of the eviction group
}

type group struct {
	members map[uint32]bool // keys
	evict   int             // how many of the members were evicted (unknown which)
}

func addrCase(k int) {
	r := run.Rand("addr", k)
	max := []int{1, 2, 3, 5, 8, 20, 2000}[r.Intn(7)]
	listenPort := 1000 + r.Intn(60000)
	var clientIP net.IP
	switch r.Intn(3) {
	case 0:
		clientIP = net.IPv4(100, 64, byte(r.Intn(4)), byte(1+r.Intn(250)))
	case 1:
		clientIP = net.IPv4(127, 0, 0, 1)
	}
	var bl *blocklist.Blocklist
	var blocked []rng
	if r.Intn(2) == 0 {
		bl = blocklist.New()
		text, rs, _ := genList(r)
		if _, err := bl.Reload(strings.NewReader(text)); err == nil {
			blocked = rs
		} else {
			bl = nil
		}
	}
	al := addrlist.New(max, bl, listenPort, &clientIP)
	clientAddr := func() *net.TCPAddr {
		ip := clientIP
		if ip == nil {
			ip = net.IPv4(0, 0, 0, 0)
		}
		return &net.TCPAddr{IP: ip, Port: listenPort}
	}
	prio := func(a *net.TCPAddr) uint32 { return peerpriority.Calculate(a, clientAddr()) }
	model := map[uint32]*elem{}
	groups := map[int]*group{}
	nextGroup := 1
	popped := map[string]bool{}
	everPushed := map[string]bool{}
	batch := 0
	var log []string
	fail := func(sig, f string, a ...any) {
		tail := log
		if len(tail) > 40 {
			tail = tail[len(tail)-40:]
		}
		run.Violation(sig, fmt.Sprintf("addrlist %d (max %d): ", k, max)+fmt.Sprintf(f, a...), map[string]any{"log_tail": tail})
	}
	filtered := func(a *net.TCPAddr) bool {
		if a.Port == 0 {
			return true
		}
		if a.IP.IsLoopback() && a.Port == listenPort {
			return true
		}
		if clientIP != nil && clientIP.Equal(a.IP) {
			return true
		}
		if externalip.IsExternal(a.IP) {
			return true
		}
		if bl != nil {
			v := a.IP.To4()
			if v != nil && scan(blocked, uint32(v[0])<<24|uint32(v[1])<<16|uint32(v[2])<<8|uint32(v[3])) {
				return true
			}
		}
		return false
	}
	count := func() int { // model length
		n := len(model)
		for _, g := range groups {
			n -= g.evict
		}
		return n
	}
	resolveGroup := func(id int) {
		g := groups[id]
		if g == nil {
			return
		}
		if g.evict == 0 {
			for key := range g.members {
				if e := model[key]; e != nil {
					e.uncertain = 0
				}
			}
			delete(groups, id)
		} else if g.evict == len(g.members) {
			for key := range g.members {
				delete(model, key)
			}
			delete(groups, id)
		}
	}
	nops := 20 + r.Intn(120)
	pt, ok := vx.Try(func() {
		for op := 0; op < nops; op++ {
			c := r.Intn(100)
			switch {
			case c < 55: // push a batch
				batch++
				nb := 1
				if r.Intn(10) < 3 {
					nb = 2 + r.Intn(5)
				}
				src := peersource.Source(r.Intn(5))
				var addrs []*net.TCPAddr
				for i := 0; i < nb; i++ {
					var ip net.IP
					switch r.Intn(6) {
					case 0:
						ip = net.IPv4(127, 0, 0, byte(1+r.Intn(3)))
					case 1:
						if clientIP != nil {
							ip = clientIP
						} else {
							ip = net.IPv4(9, 9, 9, 9)
						}
					case 2:
						ip = net.IPv4(50, 60, byte(r.Intn(3)), byte(r.Intn(4))) // collide on masked priority bits
					default:
						ip = net.IPv4(byte(1+r.Intn(222)), byte(r.Intn(256)), byte(r.Intn(256)), byte(r.Intn(256)))
					}
					port := []int{0, listenPort, 1 + r.Intn(65535), 6881}[r.Intn(4)]
					addrs = append(addrs, &net.TCPAddr{IP: ip, Port: port})
				}
				var ds []string
				for _, a := range addrs {
					ds = append(ds, a.String())
				}
				log = append(log, fmt.Sprintf("push %v src=%d", ds, src))
				al.Push(addrs, src)
				for _, a := range addrs {
					if filtered(a) {
						continue
					}
					everPushed[a.String()] = true
					delete(popped, a.String())
					key := prio(a)
					if old := model[key]; old != nil && old.uncertain != 0 {
						// replacing an element whose presence is unknown: the outcome for the group is
						// unknowable from outside; give up modelling this history (rare)
						run.Count("addr_histories_abandoned_on_ambiguous_replace", 1)
						return
					}
					model[key] = &elem{addr: a, batch: batch, source: src}
				}
				// eviction of the oldest beyond max
				if delta := count() - max; delta > 0 {
					type kb struct {
						key   uint32
						batch int
					}
					var certain []kb
					for key, e := range model {
						if e.uncertain == 0 {
							certain = append(certain, kb{key, e.batch})
						}
					}
					if len(groups) > 0 {
						run.Count("addr_histories_abandoned_on_nested_ambiguity", 1)
						return
					}
					sort.Slice(certain, func(i, j int) bool { return certain[i].batch < certain[j].batch })
					thr := certain[delta-1].batch
					var same []uint32
					evicted := 0
					for _, x := range certain {
						if x.batch < thr {
							delete(model, x.key)
							evicted++
						} else if x.batch == thr {
							same = append(same, x.key)
						}
					}
					need := delta - evicted
					if need == len(same) {
						for _, key := range same {
							delete(model, key)
						}
					} else if need > 0 {
						g := &group{members: map[uint32]bool{}, evict: need}
						for _, key := range same {
							g.members[key] = true
							model[key].uncertain = nextGroup
						}
						groups[nextGroup] = g
						nextGroup++
					}
				}
			case c < 90: // pop
				a, src := al.Pop()
				if a == nil {
					log = append(log, "pop -> nil")
					if count() != 0 {
						fail("pop-empty", "Pop returned nothing while %d addresses should be queued", count())
						return
					}
					continue
				}
				log = append(log, fmt.Sprintf("pop -> %s src=%d", a, src))
				if filtered(a) {
					fail("pop-filtered", "Pop returned %s which must have been filtered at Push (port 0 / own address / blocked)", a)
					return
				}
				if !everPushed[a.String()] {
					fail("pop-never-pushed", "Pop returned %s which was never pushed", a)
					return
				}
				if popped[a.String()] {
					fail("pop-twice", "Pop returned %s again without it being pushed again", a)
					return
				}
				key := prio(a)
				e := model[key]
				if e == nil || e.addr.String() != a.String() {
					fail("pop-not-member", "Pop returned %s which is not in the reference set (evicted, replaced or popped before)", a)
					return
				}
				if e.source != src {
					fail("pop-source", "Pop returned %s with source %d, it was pushed with source %d", a, src, e.source)
					return
				}
				// maximum priority: every certain element must not outrank it; an uncertain one that
				// outranks it must have been evicted
				for k2, e2 := range model {
					if k2 > key {
						if e2.uncertain == 0 {
							fail("pop-not-max", "Pop returned %s (priority %d) while %s (priority %d) is queued", a, key, e2.addr, k2)
							return
						}
						g := groups[e2.uncertain]
						g.evict--
						delete(g.members, k2)
						delete(model, k2)
						if g.evict < 0 {
							fail("pop-not-max", "Pop returned %s (priority %d) although higher-priority addresses cannot all have been evicted", a, key)
							return
						}
					}
				}
				if e.uncertain != 0 {
					g := groups[e.uncertain]
					delete(g.members, key)
					if g.evict > len(g.members) {
						fail("evicted-reappeared", "Pop returned %s but the bound implies it was evicted", a)
						return
					}
				}
				delete(model, key)
				for id := range groups {
					resolveGroup(id)
				}
				popped[a.String()] = true
			case c < 95:
				log = append(log, "reset")
				al.Reset()
				model = map[uint32]*elem{}
				groups = map[int]*group{}
			default:
				log = append(log, "len")
			}
			// invariants after every operation
			if al.Len() != count() {
				fail("len-mismatch", "Len()=%d, reference set holds %d", al.Len(), count())
				return
			}
			if al.Len() > max {
				fail("bound-exceeded", "Len()=%d exceeds the bound %d", al.Len(), max)
				return
			}
			sum := 0
			for s := peersource.Source(0); s < 5; s++ {
				n := al.LenSource(s)
				if n < 0 {
					fail("source-count-negative", "LenSource(%d)=%d", s, n)
					return
				}
				sum += n
			}
			if sum != al.Len() {
				fail("source-count-sum", "per-source counts sum to %d, Len()=%d", sum, al.Len())
				return
			}
		}
	})
	if !ok {
		fail("addrlist-panic", "panic: %s", pt)
		return
	}
	run.Count("addrlist_ops", int64(len(log)))
	run.Distinct("addr|" + vx.Hash(strings.Join(log, ";")))
	if k < 2 {
		t := log
		if len(t) > 12 {
			t = t[:12]
		}
		run.Sample(map[string]any{"addrlist_bound": max, "ops": t})
	}
}

func main() {
	run = vx.Begin("C18", "exploration",
		"(c) live sessions with a blocklist fetched from a reference HTTP server and the three switches drawn: blocked / unblocked twins of a listener, an incoming dialer and an HTTP tracker (blocked never contacted while its switch is on, unblocked always), two listeners on one IP (never both connected), the client's own address handed back by the tracker with its external IP (never dialled); (a) PRNG rule lists (overlapping, nested, adjacent, /0../32, duplicates, comments, malformed lines) reloaded 1-4 times; Blocked() compared with a linear scan at every range endpoint +-1, the extremes and PRNG points; concurrent Blocked during Reload; (b) PRNG push/pop/reset histories on the candidate address list compared with a reference bounded priority set (eviction victim free among equal time stamps). distinct = distinct rule-list sequences / operation logs")
	logger.Disable()
	_ = os.Getenv
	if vx.ChildRole() == "sess" {
		lo, hi := vx.ChildRange()
		for k := lo; k < hi; k++ {
			sessionCase(k)
		}
		run.Finish(0)
	}
	nb := run.N(3000, 300000)
	vx.Parallel(nb, runtime.NumCPU(), func(k int) {
		if run.Enough() {
			return
		}
		run.Eval(1)
		if pt, ok := vx.Try(func() { blocklistCase(k) }); !ok {
			run.Violation("blocklist-panic", fmt.Sprintf("blocklist %d: panic %s", k, pt), nil)
		}
	})
	vx.Parallel(run.N(20, 400), 4, func(k int) { run.Eval(1); blocklistConcurrent(k) })
	na := run.N(6000, 400000)
	vx.Parallel(na, runtime.NumCPU(), func(k int) {
		if run.Enough() {
			return
		}
		run.Eval(1)
		addrCase(k)
	})
	run.RunChildren("sess", run.N(24, 1500), 8, "sess-", 30*time.Second, func(res vx.ChildResult, k int, logp string) {
		run.Violation("crash:"+vx.NormalisePanic(res.PanicText)+"|"+res.RainFrame, fmt.Sprintf("%s: client crashed: %s at %s (log %s)", res.OpenCase, res.PanicText, res.RainFrame, logp), nil)
	})
	run.Assume("the reference set is keyed by the BEP 40 priority value (rain's own peerpriority.Calculate): two addresses with equal priority are one element, as in the implementation's tree")
	run.Assume("session level: every negative (blocked endpoint never contacted) is paired with a positive control on an unblocked twin in the same scenario; a scenario whose control stays silent is inconclusive")
	run.Finish(300)
}
