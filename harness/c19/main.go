// C19: private torrents. Each scenario runs a real session with DHT and PEX
// enabled against a reference DHT node (the only bootstrap router), a reference
// HTTP tracker, two reference peers that speak ut_pex and offer a PEX-only
// address, a DHT-only address handed out by the reference DHT node, and an
// incoming reference peer. Private scenarios must show none of the forbidden
// events; public twins must show all of them (observability proof).
package main

import (
	"bytes"
	"crypto/rand"
	"fmt"
	"io"
	"net"
	"os"
	"path/filepath"
	"strings"
	"sync"
	"sync/atomic"
	"time"

	"github.com/cenkalti/rain/v2/torrent"
	"github.com/cenkalti/rain/v2/verifx/benc"
	"github.com/cenkalti/rain/v2/verifx/evlog"
	"github.com/cenkalti/rain/v2/verifx/gen"
	"github.com/cenkalti/rain/v2/verifx/memstore"
	"github.com/cenkalti/rain/v2/verifx/refdht"
	"github.com/cenkalti/rain/v2/verifx/refpeer"
	"github.com/cenkalti/rain/v2/verifx/reftracker"
	"github.com/cenkalti/rain/v2/verifx/refwire"
	"github.com/cenkalti/rain/v2/verifx/sess"
	"github.com/cenkalti/rain/v2/verifx/vx"
)

var run *vx.Run

const (
	privPrefix = "-PV1234-"
	privVer    = "PrivClient 9.9"
	privUA     = "PrivUA/9.9"
)

func randID() (id [20]byte) { rand.Read(id[:]); copy(id[:], "-RF0001-"); return }

type counter struct {
	ln   net.Listener
	n    atomic.Int64 // connections
	priv atomic.Int64 // plaintext handshakes carrying the private peer-id prefix
}

func newCounter(ip string) (*counter, error) {
	ln, err := net.Listen("tcp4", ip+":0")
	if err != nil {
		return nil, err
	}
	c := &counter{ln: ln}
	go func() {
		for {
			conn, err := ln.Accept()
			if err != nil {
				return
			}
			c.n.Add(1)
			go func() {
				buf := make([]byte, 68)
				conn.SetDeadline(time.Now().Add(2 * time.Second))
				if _, err := io.ReadFull(conn, buf); err == nil && buf[0] == 19 && strings.HasPrefix(string(buf[48:]), privPrefix) {
					c.priv.Add(1)
				}
				conn.Close()
			}()
		}
	}()
	return c, nil
}
func (c *counter) addr() *net.TCPAddr { return c.ln.Addr().(*net.TCPAddr) }

var dhtPort atomic.Int64

func scenario(k int) {
	r := run.Rand("c19", k)
	label := fmt.Sprintf("c19-%d", k)
	// flag classes: must-be-private (i1e), must-be-public (absent, i0e), other encodings (only consistency with Stats().Private is demanded)
	type fl struct {
		name string
		v    any
		want string // "private" | "public" | "consistent"
	}
	flags := []fl{{"i1e", int64(1), "private"}, {"i1e", int64(1), "private"}, {"i1e", int64(1), "private"}, {"absent", nil, "public"}, {"i0e", int64(0), "public"}, {"i2e", int64(2), "consistent"}, {"i-1e", int64(-1), "consistent"}, {"string-1", "1", "consistent"}, {"list", benc.List{int64(1)}, "consistent"}}
	f := flags[r.Intn(len(flags))]
	mode := []string{"torrent", "torrent", "magnet", "twin"}[r.Intn(4)]
	if f.want == "consistent" && mode == "twin" {
		mode = "torrent"
	}
	restart := mode == "torrent" && r.Intn(3) == 0
	desc := fmt.Sprintf("%s flag=%s mode=%s restart=%v", label, f.name, mode, restart)
	run.CaseStart(desc)
	dir := filepath.Join(run.Work, label)
	os.MkdirAll(dir, 0o755)
	defer os.RemoveAll(dir)

	node, err := refdht.New(sess.NextIP())
	if err != nil {
		run.Inconclusive(desc + ": " + err.Error())
		run.CaseEnd(desc)
		return
	}
	defer node.Close()
	pexOnly, _ := newCounter(sess.NextIP())
	dhtOnly, _ := newCounter(sess.NextIP())
	defer pexOnly.ln.Close()
	defer dhtOnly.ln.Close()
	node.Values = func(string) []*net.TCPAddr { return []*net.TCPAddr{dhtOnly.addr()} }

	l := &gen.Layout{Name: fmt.Sprintf("p%d", k), PieceLen: 32768, Seed: int64(k) + 5, Single: true, Files: []gen.FileSpec{{Length: int64(150000 + r.Intn(100000))}}, Private: f.v}
	truth := l.Truth()
	info := l.InfoBytes(truth)
	ih := gen.InfoHash(info)
	log := &evlog.Log{}

	// two seeders that speak ut_pex and offer the PEX-only address
	var seeders []*refpeer.SeederState
	var handshakes []refwire.HS
	var smu sync.Mutex
	var lns []*refpeer.Listener
	var pieceReqAfterMeta atomic.Int64
	for i := 0; i < 2; i++ {
		ln, err := refpeer.Listen(fmt.Sprintf("seeder%d", i), sess.NextIP(), log)
		if err != nil {
			continue
		}
		lns = append(lns, ln)
		go func() {
			for {
				c, err := ln.Accept(refpeer.HSOpts{InfoHash: ih, PeerID: randID(), Fast: true, Ext: true, Crypto: "auto"}, 6*time.Second)
				if err != nil {
					if err == refpeer.ErrHandshake || strings.Contains(err.Error(), "handshake") {
						continue
					}
					return
				}
				st := &refpeer.SeederState{}
				smu.Lock()
				seeders = append(seeders, st)
				handshakes = append(handshakes, c.Remote)
				smu.Unlock()
				have := make([]bool, l.NumPieces())
				for i := range have {
					have[i] = i != len(have)-1 // nobody has the last piece: the client keeps looking for peers
				}
				cfg := refpeer.SeederCfg{Content: sess.ContentOf(l, truth), Have: have, Announce: "bitfield", Unchoke: "on-interested", Metadata: info, PEXAdd: []*net.TCPAddr{pexOnly.addr()}, ServeDelay: 15 * time.Millisecond}
				cfg.OnRequest = func(int, refwire.Msg) string { pieceReqAfterMeta.Add(1); return "serve" }
				go refpeer.RunSeeder(c, cfg, st)
			}
		}()
	}
	var peerAddrs []*net.TCPAddr
	for _, ln := range lns {
		peerAddrs = append(peerAddrs, ln.Addr())
	}
	tr, err := reftracker.NewHTTP("tracker", sess.NextIP(), func(a reftracker.Announce) reftracker.Reply {
		return reftracker.Reply{Kind: "ok", Interval: reftracker.I(1800), Peers: peerAddrs}
	})
	if err != nil {
		run.Inconclusive(desc + ": " + err.Error())
		run.CaseEnd(desc)
		return
	}
	defer tr.Close()
	trURL := fmt.Sprintf("http://%s/announce", tr.Addr())

	prov := memstore.NewProvider(filepath.Join(dir, "m"))
	dp := 31000 + int(dhtPort.Add(1)*13%20000) + os.Getpid()%1000
	var first *torrent.Config
	mutate := func(c *torrent.Config) {
		if first != nil {
			c.Host, c.PortBegin, c.PortEnd = first.Host, first.PortBegin, first.PortEnd
		}
		c.DHTEnabled = true
		c.DHTHost = c.Host
		c.DHTPort = uint16(dp)
		c.DHTBootstrapNodes = []string{node.Addr().String()}
		c.DHTAnnounceInterval = 2 * time.Second
		c.DHTMinAnnounceInterval = 500 * time.Millisecond
		c.PEXEnabled = true
		c.DisableOutgoingEncryption = true // plaintext handshakes: the counters can tell which torrent dialled
		c.PrivatePeerIDPrefix = privPrefix
		c.PrivateExtensionHandshakeClientVersion = privVer
		c.TrackerHTTPPrivateUserAgent = privUA
	}
	s, cfg, err := sess.New(sess.Opts{Dir: dir, Storage: prov, Mutate: mutate})
	first = &cfg
	if err != nil {
		run.Inconclusive(desc + ": session: " + err.Error())
		run.CaseEnd(desc)
		return
	}
	closed := false
	defer func() {
		if !closed {
			s.Close()
		}
	}()
	run.Eval(1)
	var t, tTwin *torrent.Torrent
	tb := gen.TorrentBytes(info, [][]string{{trURL}}, nil)
	magnet := fmt.Sprintf("magnet:?xt=urn:btih:%x&tr=%s", ih, trURL)
	switch mode {
	case "torrent":
		if restart {
			// added stopped, session restarted, started afterwards: everything below is observed on the reloaded torrent
			t, err = s.AddTorrent(bytes.NewReader(tb), &torrent.AddTorrentOptions{Stopped: true})
			if err == nil {
				id := t.ID()
				s.Close()
				s, cfg, err = sess.New(sess.Opts{Dir: dir, Storage: prov, Mutate: mutate})
				if err != nil {
					closed = true
					run.Inconclusive(desc + ": reopen: " + err.Error())
					run.CaseEnd(desc)
					return
				}
				if t = s.GetTorrent(id); t == nil {
					run.Inconclusive(desc + ": torrent missing after restart")
					run.CaseEnd(desc)
					return
				}
				t.Start()
			}
		} else {
			t, err = s.AddTorrent(bytes.NewReader(tb), nil)
		}
	case "magnet":
		t, err = s.AddURI(magnet, nil)
	case "twin":
		// the .torrent and, next to it, a magnet link for the same info-hash
		t, err = s.AddTorrent(bytes.NewReader(tb), nil)
		if err == nil {
			tTwin, _ = s.AddURI(fmt.Sprintf("magnet:?xt=urn:btih:%x", ih), nil)
		}
	}
	if err != nil {
		run.Count("add_refused", 1)
		run.CaseEnd(desc)
		return
	}
	// incoming peer: which peer id does the client answer with?
	var incomingID atomic.Value
	go func() {
		time.Sleep(300 * time.Millisecond)
		c, err := refpeer.Dial("incoming", sess.NextIP(), sess.ListenAddr(cfg, t), refpeer.HSOpts{InfoHash: ih, PeerID: randID(), Fast: true, Ext: true, Crypto: "plain"}, log)
		if err != nil {
			return
		}
		incomingID.Store(c.Remote.PeerID)
		time.Sleep(time.Second)
		c.Close()
	}()
	time.Sleep(2500 * time.Millisecond)
	st := t.Stats()
	_, magErr := t.Magnet()
	_, torErr := t.Torrent()

	// ---- classify
	reportedPrivate := st.Private
	isMagnetOnly := mode == "magnet"
	var dhtQ []refdht.Query
	for _, q := range node.Queries() {
		if q.InfoHash == string(ih[:]) {
			dhtQ = append(dhtQ, q)
		}
	}
	pexSent := 0
	smu.Lock()
	var vers []string
	for _, x := range seeders {
		x.Mu.Lock()
		pexSent += x.PEXMsgs
		if v, ok := x.ExtHS["v"]; ok {
			vers = append(vers, fmt.Sprint(v))
		}
		x.Mu.Unlock()
	}
	hs := append([]refwire.HS(nil), handshakes...)
	smu.Unlock()
	ann := tr.Log()
	bad := func(sig, what string) {
		run.Violation(sig, fmt.Sprintf("%s: %s", desc, what), map[string]any{"stats_private": reportedPrivate, "dht_queries": len(dhtQ), "pex_msgs_sent_by_client": pexSent, "pex_only_dials": pexOnly.n.Load(), "dht_only_dials": dhtOnly.n.Load()})
	}
	switch {
	case f.want == "private" && !isMagnetOnly && !reportedPrivate:
		bad("private-flag-not-recognised", "metainfo has private=1 but Stats().Private is false")
	case f.want == "public" && reportedPrivate:
		bad("public-reported-private", "metainfo has no private=1 but Stats().Private is true")
	}
	treatPrivate := reportedPrivate || (f.want == "private" && !isMagnetOnly)
	if isMagnetOnly {
		// metadata arrives from the seeders; a private one must be refused
		if f.want == "private" {
			if st.Status != torrent.Stopped || st.Error == nil {
				bad("private-metadata-from-magnet-adopted", fmt.Sprintf("magnet link whose metadata is private: status %s error %v (expected refusal)", st.Status, st.Error))
			}
			if torErr == nil {
				bad("private-metadata-from-magnet-adopted:export", "Torrent() exports the private metadata fetched through a magnet link")
			}
			if st.Pieces.Have > 0 || st.Bytes.Downloaded > 0 {
				bad("private-metadata-from-magnet-adopted:download", fmt.Sprintf("%d pieces / %d bytes downloaded after private metadata arrived through a magnet link", st.Pieces.Have, st.Bytes.Downloaded))
			}
			run.Count("private_magnet_refusals_observed", 1)
		}
	} else if treatPrivate {
		if len(dhtQ) > 0 && mode != "twin" {
			bad("private-torrent-announced-to-dht", fmt.Sprintf("the reference DHT node received %d queries (%s ...) for the private torrent's info-hash", len(dhtQ), dhtQ[0].Type))
		}
		n := dhtOnly.n.Load()
		if mode == "twin" {
			n = dhtOnly.priv.Load() // the magnet twin may dial DHT peers; only dials carrying the private torrent's peer id count
		}
		if n > 0 {
			sig := "private-torrent-fed-from-dht"
			if mode == "twin" {
				sig += ":via-magnet-twin-with-same-info-hash"
			}
			bad(sig, fmt.Sprintf("an address only the DHT handed out was dialled %d times by the private torrent (%d torrents share the info-hash)", n, map[bool]int{true: 2, false: 1}[tTwin != nil]))
		}
		if pexSent > 0 {
			bad("pex-sent-for-private-torrent", fmt.Sprintf("%d ut_pex messages were sent to peers of a private torrent", pexSent))
		}
		if n := pexOnly.n.Load(); n > 0 {
			bad("pex-acted-upon-for-private-torrent", fmt.Sprintf("an address only offered through ut_pex was dialled %d times", n))
		}
		if magErr == nil {
			bad("magnet-exported-for-private-torrent", "Magnet() succeeds for a private torrent")
		}
		for _, h := range hs {
			if !strings.HasPrefix(string(h.PeerID[:]), privPrefix) {
				bad("private-peer-id-prefix-not-used:outgoing-handshake", fmt.Sprintf("handshake peer id %q does not start with the configured private prefix %q", h.PeerID[:8], privPrefix))
				break
			}
		}
		if id, ok := incomingID.Load().([20]byte); ok && !strings.HasPrefix(string(id[:]), privPrefix) {
			bad("private-peer-id-prefix-not-used:incoming-handshake", fmt.Sprintf("handshake peer id %q does not start with %q", id[:8], privPrefix))
		}
		for _, a := range ann {
			if !strings.HasPrefix(string(a.PeerID[:]), privPrefix) {
				bad("private-peer-id-prefix-not-used:announce", fmt.Sprintf("announce peer_id %q does not start with %q", a.PeerID[:8], privPrefix))
				break
			}
			if a.UserAgent != privUA {
				bad("private-user-agent-not-used", fmt.Sprintf("announce User-Agent %q, configured private user agent %q", a.UserAgent, privUA))
				break
			}
		}
		for _, v := range vers {
			if v != privVer {
				bad("private-client-version-not-used", fmt.Sprintf("extension handshake v=%q, configured private version %q", v, privVer))
				break
			}
		}
		if len(hs) == 0 || len(ann) == 0 {
			run.Inconclusive(desc + ": no handshake / announce observed")
		}
		run.Count("private_scenarios", 1)
		run.Count("private_handshakes_checked", int64(len(hs)))
		run.Count("private_announces_checked", int64(len(ann)))
	} else {
		// public twin: the same instruments must see the events (observability)
		if len(dhtQ) > 0 {
			run.Count("control_dht_queries_seen", 1)
		}
		if dhtOnly.n.Load() > 0 {
			run.Count("control_dht_fed_dial_seen", 1)
		}
		if pexSent > 0 {
			run.Count("control_pex_sent_seen", 1)
		}
		if pexOnly.n.Load() > 0 {
			run.Count("control_pex_dial_seen", 1)
		}
		if magErr == nil {
			run.Count("control_magnet_exported", 1)
		}
		run.Count("public_scenarios", 1)
	}
	// ---- a refused private magnet must not come back after a restart
	if isMagnetOnly && f.want == "private" {
		s.Close()
		closed = true
		s2, _, err := sess.New(sess.Opts{Dir: dir, Storage: prov, Mutate: func(c *torrent.Config) { c.Host = cfg.Host; c.PortBegin, c.PortEnd = cfg.PortBegin, cfg.PortEnd }})
		if err == nil {
			if t2 := s2.GetTorrent(t.ID()); t2 != nil {
				if _, err := t2.Torrent(); err == nil {
					bad("private-metadata-from-magnet-adopted:after-restart", "after a restart the torrent holds the private metadata fetched through the magnet link")
				}
			}
			s2.Close()
		}
	}
	run.Distinct(fmt.Sprintf("%s|%s|%v|%v|%d|%d|%d|%d", f.name, mode, restart, reportedPrivate, min(len(dhtQ), 1), min(pexSent, 1), min(int(pexOnly.n.Load()), 1), min(int(dhtOnly.n.Load()), 1)))
	if k%10 == 1 {
		run.Sample(map[string]any{"case": desc, "stats_private": reportedPrivate, "dht_queries_for_hash": len(dhtQ), "pex_sent": pexSent, "pex_only_dials": pexOnly.n.Load(), "dht_only_dials": dhtOnly.n.Load(), "handshakes": len(hs), "announces": len(ann), "status": st.Status.String(), "dht_query_types": qtypes(node.Queries())})
	}
	for _, ln := range lns {
		ln.Close()
	}
	run.CaseEnd(desc)
}

func qtypes(q []refdht.Query) string {
	var s []string
	for _, x := range q {
		s = append(s, x.Type)
	}
	return strings.Join(s, ",")
}

func main() {
	run = vx.Begin("C19", "exploration",
		"PRNG scenarios: private flag encoding (i1e / absent / i0e / i2e / i-1e / string / list) x entry (.torrent, magnet, .torrent + magnet twin with the same info-hash) in a session with DHT and PEX enabled, one reference DHT bootstrap node handing out a DHT-only address, a reference tracker, two ut_pex-speaking reference seeders offering a PEX-only address, an incoming reference peer. Private: no DHT query for the hash, no dial of the DHT-only or PEX-only address, no ut_pex sent, Magnet() refused, private peer-id prefix / version / user agent on every handshake, extended handshake and announce; private metadata through a magnet link refused (status, export, download, after restart). Public twins must show every one of these events. distinct = distinct (flag, mode, observation) tuples")
	vx.StartCanary()
	if vx.ChildRole() == "scen" {
		lo, hi := vx.ChildRange()
		for k := lo; k < hi; k++ {
			if run.Violations() >= 5 {
				break
			}
			scenario(k)
		}
		run.Finish(0)
	}
	crash := func(res vx.ChildResult, k int, logp string) {
		run.Violation("crash:"+vx.NormalisePanic(res.PanicText)+"|"+res.RainFrame, fmt.Sprintf("%s: client crashed: %s at %s (log %s)", res.OpenCase, res.PanicText, res.RainFrame, logp), map[string]any{"tail": res.Tail})
	}
	run.RunChildren("scen", run.N(64, 2400), 16, "c19-", 30*time.Second, crash)
	run.Assume("other encodings of the private key than the integer 1 are only required to be treated consistently with Stats().Private")
	run.Finish(12)
}
