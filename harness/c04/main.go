// C04: lifecycle safety. Systematic + PRNG exploration of command histories on
// one torrent (memstore, scripted seeder, scripted tracker) with truthfulness
// predicates after every step, bounded-progress predicates at quiescence and a
// final convergence run. One history per child-process case.
package main

import (
	"bytes"
	"crypto/sha1"
	"fmt"
	"math/rand"
	"os"
	"path/filepath"
	"strings"
	"sync"
	"time"

	"github.com/cenkalti/rain/v2/torrent"
	"github.com/cenkalti/rain/v2/verifx/evlog"
	"github.com/cenkalti/rain/v2/verifx/gen"
	"github.com/cenkalti/rain/v2/verifx/memstore"
	"github.com/cenkalti/rain/v2/verifx/refpeer"
	"github.com/cenkalti/rain/v2/verifx/reftracker"
	"github.com/cenkalti/rain/v2/verifx/sess"
	"github.com/cenkalti/rain/v2/verifx/vx"
)

var run *vx.Run

type hist struct {
	K       int
	Initial string   // empty | partial | complete
	Slow    string   // none | open | read | write
	Stopped string   // tracker's answer to event=stopped: ok | slow | silent
	Dial1   bool     // MaxPeerDial=1: with three seeders on offer two addresses stay queued
	Steps   []string // start stop verify announce addpeer addtracker stats wait mutate-corrupt mutate-truncate mutate-delete-one mutate-delete-all reopen remove pause1
}

func (h hist) String() string {
	return fmt.Sprintf("init=%s slow=%s tracker-stopped=%s dial1=%v steps=%s", h.Initial, h.Slow, h.Stopped, h.Dial1, strings.Join(h.Steps, ","))
}

// shape: the history with waits/stats/pauses dropped - used in finding signatures
func (h hist) shape() string {
	var o []string
	for _, s := range h.Steps {
		switch s {
		case "stats", "pause1", "pause2", "announce", "addtracker":
		default:
			o = append(o, s)
		}
	}
	return h.Initial + ":" + strings.Join(o, ">")
}

var core = []string{"start", "stop", "verify", "mutate-delete-all", "wait"}
var full = []string{"start", "stop", "verify", "announce", "addpeer", "addtracker", "stats", "wait", "mutate-corrupt", "mutate-truncate", "mutate-delete-one", "mutate-delete-all", "reopen", "pause1", "pause2", "wait", "start", "stop"}

func enumerate(maxLen int) []hist {
	var out []hist
	var rec func(steps []string)
	rec = func(steps []string) {
		if len(steps) > 0 {
			for _, ini := range []string{"empty", "partial", "complete"} {
				for _, slow := range []string{"none", "open"} {
					out = append(out, hist{Initial: ini, Slow: slow, Stopped: "ok", Dial1: len(out)%2 == 1, Steps: append([]string(nil), steps...)})
				}
			}
		}
		if len(steps) == maxLen {
			return
		}
		for _, s := range core {
			if s == "wait" && (len(steps) == 0 || steps[len(steps)-1] == "wait") {
				continue
			}
			rec(append(steps, s))
		}
	}
	rec(nil)
	return out
}

// regression shapes of the defects found while designing (must stay in every tier)
func regressions() []hist {
	return []hist{
		{Initial: "complete", Slow: "none", Stopped: "ok", Steps: []string{"start", "wait", "stop", "wait", "mutate-corrupt", "verify", "wait", "start", "addpeer", "wait"}},
		{Initial: "complete", Slow: "none", Stopped: "ok", Steps: []string{"start", "wait", "stop", "wait", "mutate-delete-all", "start", "wait"}},
		{Initial: "empty", Slow: "write", Stopped: "ok", Steps: []string{"start", "addpeer", "pause1", "stop", "start", "addpeer", "wait"}},
		{Initial: "partial", Slow: "none", Stopped: "silent", Steps: []string{"start", "wait", "stop", "start", "wait"}},
		{Initial: "empty", Slow: "none", Stopped: "ok", Steps: []string{"verify", "addpeer", "wait"}},
		{Initial: "empty", Slow: "open", Stopped: "ok", Steps: []string{"start", "stop", "wait"}},
		{Initial: "partial", Slow: "read", Stopped: "ok", Steps: []string{"start", "pause1", "stop", "wait", "start", "wait"}},
		{Initial: "complete", Slow: "none", Stopped: "slow", Steps: []string{"start", "wait", "verify", "stop", "wait", "start", "wait"}},
		{Initial: "complete", Slow: "none", Stopped: "ok", Steps: []string{"start", "wait", "reopen", "wait", "stop", "wait"}},
		{Initial: "empty", Slow: "write", Stopped: "ok", Dial1: true, Steps: []string{"start", "addpeer", "pause2", "stop", "wait"}},
		{Initial: "partial", Slow: "write", Stopped: "slow", Dial1: true, Steps: []string{"start", "pause2", "addpeer", "pause2", "stop", "pause2", "stats", "wait"}},
		{Initial: "empty", Slow: "write", Stopped: "silent", Dial1: true, Steps: []string{"start", "addpeer", "pause2", "stop", "pause1", "stats", "wait", "start", "addpeer", "pause2", "verify", "wait"}},
		{Initial: "partial", Slow: "none", Stopped: "ok", Dial1: true, Steps: []string{"start", "addpeer", "wait", "addpeer", "stop", "wait"}},
		// files deleted while stopped, the start that would notice is stopped during allocation, then started again (thorough seed 0, histories 2337-2339)
		{Initial: "partial", Slow: "none", Stopped: "ok", Steps: []string{"verify", "mutate-delete-all", "start", "stop"}},
		{Initial: "complete", Slow: "open", Stopped: "ok", Dial1: true, Steps: []string{"verify", "mutate-delete-all", "start", "stop"}},
		{Initial: "complete", Slow: "open", Stopped: "ok", Steps: []string{"start", "wait", "stop", "wait", "mutate-delete-one", "start", "stop", "wait", "start", "stop"}},
		// a peer address that arrives while the torrent is Stopping (slow 'stopped' announce) must not leave a connected peer behind
		{Initial: "partial", Slow: "none", Stopped: "slow", Steps: []string{"start", "wait", "stop", "pause1", "addpeer", "wait"}},
		{Initial: "empty", Slow: "none", Stopped: "slow", Dial1: true, Steps: []string{"start", "pause2", "stop", "pause1", "addpeer", "pause2", "stats", "wait"}},
		{Initial: "partial", Slow: "none", Stopped: "silent", Steps: []string{"start", "wait", "stop", "addpeer", "pause1", "addpeer", "wait"}},
		// a piece write still in flight when the torrent is stopped and then verified (found by the C20 stress workload)
		{Initial: "empty", Slow: "write", Stopped: "ok", Steps: []string{"start", "addpeer", "pause2", "stop", "pause1", "verify", "pause2", "wait"}},
		{Initial: "empty", Slow: "write", Stopped: "ok", Dial1: true, Steps: []string{"start", "addpeer", "pause2", "stop", "pause1", "verify", "pause1", "start", "addpeer", "wait"}},
		{Initial: "partial", Slow: "write", Stopped: "ok", Steps: []string{"start", "addpeer", "pause2", "stop", "pause1", "start", "addpeer", "pause1", "stop", "pause1", "verify", "wait"}},
	}
}

func randomHist(r *rand.Rand) hist {
	h := hist{Initial: []string{"empty", "partial", "complete"}[r.Intn(3)], Slow: []string{"none", "none", "open", "read", "write"}[r.Intn(5)], Stopped: []string{"ok", "ok", "slow", "silent"}[r.Intn(4)]}
	h.Dial1 = r.Intn(2) == 0
	n := 3 + r.Intn(8)
	for i := 0; i < n; i++ {
		h.Steps = append(h.Steps, full[r.Intn(len(full))])
	}
	return h
}

type env struct {
	h                hist
	k                int
	dir              string
	l                *gen.Layout
	truth            []byte
	info             []byte
	prov             *memstore.Provider
	st               *memstore.Store
	s                *torrent.Session
	cfg              torrent.Config
	t                *torrent.Torrent
	tid              string
	log              *evlog.Log
	seeder           *refpeer.Listener
	extra            []*refpeer.Listener // further honest seeders: with MaxPeerDial=1 their addresses stay queued
	trk              *reftracker.HTTP
	trk2             *reftracker.HTTP
	wantRun          int // 1 running, 0 stopped, -1 unknown
	verifyPending    bool
	startAfterVerify bool // a start was issued while a verification may still have been pending
	viol             [][2]string
	trace            []string
	reqSeen          func() int // requests received by the seeder so far
	slowOn           bool
	smu              sync.Mutex
	states           []*refpeer.SeederState
	wg               sync.WaitGroup
	stopAcc          chan struct{}
	removed          bool
	// dirty: a file was corrupted or truncated while the torrent was stopped and no verification has
	// been requested since; the client cannot know about it without re-hashing
	dirty bool
}

func (e *env) bad(sig, f string, a ...any) {
	if len(e.viol) < 4 {
		e.viol = append(e.viol, [2]string{sig, fmt.Sprintf(f, a...)})
	}
}

func (e *env) dirtySfx() string {
	if e.dirty {
		return ":after-unverified-corrupt-or-truncate-while-stopped"
	}
	return ""
}

func (e *env) tr(f string, a ...any) { e.trace = append(e.trace, fmt.Sprintf(f, a...)) }

// call runs a command under a watchdog; a command that does not return is a hang.
func (e *env) call(name string, f func()) bool {
	done := make(chan struct{})
	t0 := time.Now()
	go func() { f(); close(done) }()
	select {
	case <-done:
		return true
	case <-time.After(45 * time.Second):
		if vx.CanaryWorstSince(t0) > 5*time.Second {
			run.Inconclusive("command watchdog fired while the load canary was late")
			return false
		}
		e.bad("command-hang:"+name, "%s() did not return within 45 s", name)
		return false
	}
}

func (e *env) pieceOK(i int) bool {
	pl := int64(e.l.PieceLen)
	off := int64(i) * pl
	end := off + pl
	if end > int64(len(e.truth)) {
		end = int64(len(e.truth))
	}
	// assemble the piece from the store
	buf := make([]byte, 0, end-off)
	var pos int64
	for fi, f := range e.l.Files {
		fs, fe := pos, pos+f.Length
		pos = fe
		if fe <= off || fs >= end {
			continue
		}
		a, b := max64(fs, off), min64(fe, end)
		if f.Pad {
			buf = append(buf, make([]byte, b-a)...)
			continue
		}
		data := e.st.Snapshot(filepath.FromSlash(e.l.JoinedPath(fi)))
		if int64(len(data)) < b-fs {
			return false
		}
		buf = append(buf, data[a-fs:b-fs]...)
	}
	return sha1.Sum(buf) == sha1.Sum(e.truth[off:end])
}

func max64(a, b int64) int64 {
	if a > b {
		return a
	}
	return b
}
func min64(a, b int64) int64 {
	if a < b {
		return a
	}
	return b
}

// check the instantaneous truthfulness predicates on one Stats() sample
func (e *env) checkStats(when string) torrent.Stats {
	var st torrent.Stats
	if !e.call("Stats", func() { st = e.t.Stats() }) {
		return st
	}
	np := e.l.NumPieces()
	e.tr("%s -> %s have=%d/%d peers=%d dl=%d completed=%d handles=%d", when, st.Status, st.Pieces.Have, st.Pieces.Total, st.Peers.Total, st.Downloads.Total, st.Bytes.Completed, e.prov.OpenHandles())
	switch st.Status {
	case torrent.Seeding:
		if int(st.Pieces.Have) != np {
			e.bad("seeding-with-missing-pieces", "after %s: status Seeding with %d of %d pieces", when, st.Pieces.Have, np)
		} else {
			for i := 0; i < np; i++ {
				if !e.pieceOK(i) {
					e.bad("seeding-with-bad-data"+e.dirtySfx(), "after %s: status Seeding but the stored bytes of piece %d do not match its hash", when, i)
					break
				}
			}
		}
	case torrent.Stopped:
		if st.Peers.Total != 0 || st.Downloads.Total != 0 || st.Handshakes.Total != 0 {
			e.bad("stopped-with-activity", "after %s: status Stopped with %d peers, %d handshakes, %d downloads", when, st.Peers.Total, st.Handshakes.Total, st.Downloads.Total)
		}
		if h := e.prov.OpenHandles(); h != 0 {
			e.bad("stopped-with-open-files", "after %s: status Stopped with %d data files still open", when, h)
		}
	}
	// completed bytes vs pieces held
	if st.Pieces.Total > 0 {
		pl := int64(e.l.PieceLen)
		last := e.l.Total() - int64(np-1)*pl
		have := int64(st.Pieces.Have)
		a, b := have*pl, (have-1)*pl+last
		ok := st.Bytes.Completed == a || (have > 0 && st.Bytes.Completed == b)
		if have == int64(np) {
			ok = st.Bytes.Completed == e.l.Total()
		}
		if !ok {
			e.bad("completed-bytes-inconsistent:"+st.Status.String(), "after %s: status %s holds %d pieces but reports Bytes.Completed=%d (expected %d or %d)", when, st.Status, have, st.Bytes.Completed, a, b)
		}
		if st.Bytes.Completed+st.Bytes.Incomplete != st.Bytes.Total {
			e.bad("bytes-sum", "after %s: Completed %d + Incomplete %d != Total %d", when, st.Bytes.Completed, st.Bytes.Incomplete, st.Bytes.Total)
		}
	}
	return st
}

// settle waits for quiescence and checks the bounded-progress predicates
func (e *env) settle(when string) {
	t0 := time.Now()
	quiet := sess.Quiet(800*time.Millisecond, 25*time.Second, func() string {
		return sess.StatsFingerprint(e.t) + fmt.Sprint(e.prov.OpenHandles(), e.reqSeen())
	})
	st := e.checkStats(when + "+settle")
	if !quiet {
		run.Inconclusive(fmt.Sprintf("history %d: no quiescence within 25 s after %s", e.k, when))
		e.wantRun = -1
		return
	}
	if vx.CanaryWorstSince(t0) > 2*time.Second {
		run.Inconclusive("load canary late during settle")
		e.wantRun = -1
		return
	}
	switch e.wantRun {
	case 0:
		if st.Status != torrent.Stopped {
			kind := "stop"
			if e.verifyPending {
				kind = "verify"
			}
			e.bad("not-stopped-after-"+kind, "quiescent after %s in status %s; the last of start/stop/verify was a %s, which must end Stopped", when, st.Status, kind)
		}
	case 1:
		if st.Status != torrent.Downloading && st.Status != torrent.Seeding {
			if st.Status == torrent.Stopped && st.Error != nil {
				e.tr("stopped with error %v", st.Error)
			} else {
				e.bad("start-had-no-effect", "quiescent after %s in status %s (error %v); the last of start/stop/verify was a start", when, st.Status, st.Error)
			}
		}
	}
	e.verifyPending = false
}

func (e *env) addPeers() {
	e.t.AddPeer(e.seeder.Addr().String())
	for _, ln := range e.extra {
		e.t.AddPeer(ln.Addr().String())
	}
}

func (e *env) applySlow(on bool) { e.smu.Lock(); e.slowOn = on; e.smu.Unlock() }

func (e *env) startSession() bool {
	s, cfg, err := sess.New(sess.Opts{Dir: e.dir, Storage: e.prov, Mutate: func(c *torrent.Config) {
		c.TrackerStopTimeout = 300 * time.Millisecond
		if e.h.Dial1 {
			c.MaxPeerDial = 1
		}
		if e.cfg.Host != "" {
			c.Host = e.cfg.Host
			c.PortBegin, c.PortEnd = e.cfg.PortBegin, e.cfg.PortEnd
		}
	}})
	if err != nil {
		run.Inconclusive("session: " + err.Error())
		return false
	}
	e.s, e.cfg = s, cfg
	return true
}

func runHistory(k int, h hist) {
	id := fmt.Sprintf("c04-%d", k)
	run.CaseStart(id + " " + h.String())
	defer run.CaseEndDeferred(id + " " + h.String())
	r := run.Rand("c04env", k)
	e := &env{h: h, k: k, wantRun: 0, log: &evlog.Log{}, stopAcc: make(chan struct{})}
	e.dir = filepath.Join(run.Work, fmt.Sprintf("h%d", k))
	os.MkdirAll(e.dir, 0o755)
	defer os.RemoveAll(e.dir)
	// layout: 3 files, padding in the middle, short last piece
	e.l = &gen.Layout{Name: fmt.Sprintf("c04_%d", k), PieceLen: 16384, Seed: int64(k) + 99, Files: []gen.FileSpec{
		{Path: []string{"a.bin"}, Length: 40000 + int64(r.Intn(3))*16384}, {Path: []string{".pad", "1"}, Length: int64(r.Intn(2)) * 9152, Pad: true},
		{Path: []string{"d", "b.bin"}, Length: 16384*2 + 77}, {Path: []string{"d", "c.bin"}, Length: 5000}}}
	e.truth = e.l.Truth()
	e.info = e.l.InfoBytes(e.truth)
	np := e.l.NumPieces()
	e.prov = memstore.NewProvider(filepath.Join(e.dir, "mem"))
	e.tid = fmt.Sprintf("t%d", k)
	e.st = e.prov.Get(e.tid)
	// slow knobs
	e.slowOn = true
	e.prov.Hooks.Delay = func(kind, name string, off int64) time.Duration {
		e.smu.Lock()
		on := e.slowOn
		e.smu.Unlock()
		if !on {
			return 0
		}
		switch {
		case h.Slow == "open" && kind == "open":
			return 60 * time.Millisecond
		case h.Slow == "read" && kind == "read":
			return 15 * time.Millisecond
		case h.Slow == "write" && kind == "write":
			return 80 * time.Millisecond
		}
		return 0
	}
	// initial content
	putAll := func(holes map[int]bool) {
		stored := append([]byte(nil), e.truth...)
		for i := range holes {
			for b := int64(i) * 16384; b < int64(i+1)*16384 && b < int64(len(stored)); b++ {
				stored[b] ^= 0xff
			}
		}
		for fi, f := range e.l.Files {
			if f.Pad {
				continue
			}
			off, end := e.l.FileRange(fi)
			e.st.Put(filepath.FromSlash(e.l.JoinedPath(fi)), stored[off:end])
		}
	}
	switch h.Initial {
	case "partial":
		holes := map[int]bool{}
		for i := 0; i < np; i++ {
			if i%2 == 1 {
				holes[i] = true
			}
		}
		putAll(holes)
	case "complete":
		putAll(nil)
	}
	// tracker
	var err error
	e.trk, err = reftracker.NewHTTP("t1", sess.NextIP(), func(a reftracker.Announce) reftracker.Reply {
		if a.Event == "stopped" {
			switch h.Stopped {
			case "slow":
				return reftracker.Reply{Kind: "ok", Interval: reftracker.I(1800), Delay: 120 * time.Millisecond}
			case "silent":
				return reftracker.Reply{Kind: "silent"}
			}
		}
		return reftracker.Reply{Kind: "ok", Interval: reftracker.I(1800)}
	})
	if err != nil {
		run.Inconclusive("tracker listen: " + err.Error())
		return
	}
	defer e.trk.Close()
	e.trk2, _ = reftracker.NewHTTP("t2", sess.NextIP(), nil)
	if e.trk2 != nil {
		defer e.trk2.Close()
	}
	// seeder
	e.seeder, err = refpeer.Listen("seed", sess.NextIP(), e.log)
	if err != nil {
		run.Inconclusive("seeder listen: " + err.Error())
		return
	}
	ct := sess.ContentOf(e.l, e.truth)
	ih := gen.InfoHash(e.info)
	serve := func(ln *refpeer.Listener, n int) {
		var pid [20]byte
		copy(pid[:], fmt.Sprintf("-RF0004-%02d%010d", n, k))
		e.wg.Add(1)
		go func() {
			defer e.wg.Done()
			for {
				select {
				case <-e.stopAcc:
					return
				default:
				}
				c, err := ln.Accept(refpeer.HSOpts{InfoHash: ih, PeerID: pid, Fast: true, Ext: true, Crypto: "auto", Seed: int64(k)}, 300*time.Millisecond)
				if err != nil {
					continue
				}
				stt := &refpeer.SeederState{}
				e.smu.Lock()
				e.states = append(e.states, stt)
				e.smu.Unlock()
				e.wg.Add(1)
				go func() {
					defer e.wg.Done()
					refpeer.RunSeeder(c, refpeer.SeederCfg{Content: ct, Announce: "bitfield", Unchoke: "on-interested"}, stt)
					c.Close()
				}()
			}
		}()
	}
	serve(e.seeder, 0)
	for i := 0; i < 2; i++ {
		if ln, err := refpeer.Listen(fmt.Sprintf("seed%d", i+1), sess.NextIP(), e.log); err == nil {
			e.extra = append(e.extra, ln)
			serve(ln, i+1)
		}
	}
	e.reqSeen = func() int {
		e.smu.Lock()
		defer e.smu.Unlock()
		n := 0
		for _, s := range e.states {
			s.Mu.Lock()
			n += len(s.Requests)
			s.Mu.Unlock()
		}
		return n
	}
	defer func() {
		close(e.stopAcc)
		e.seeder.Close()
		for _, ln := range e.extra {
			ln.Close()
		}
		e.wg.Wait()
	}()
	if !e.startSession() {
		return
	}
	defer func() {
		if e.s != nil {
			e.call("Session.Close", func() { e.s.Close() })
		}
	}()
	tb := gen.TorrentBytes(e.info, [][]string{{e.trk.URL}}, nil)
	e.t, err = e.s.AddTorrent(bytes.NewReader(tb), &torrent.AddTorrentOptions{ID: e.tid, Stopped: true})
	if err != nil {
		run.Inconclusive("add: " + err.Error())
		return
	}
	run.Eval(1)
	e.checkStats("add")
	ok := true
	for si, step := range h.Steps {
		if !ok || len(e.viol) > 0 || e.removed {
			break
		}
		when := fmt.Sprintf("step %d %s", si, step)
		switch step {
		case "start":
			ok = e.call("Start", func() { e.t.Start() })
			if e.verifyPending {
				e.wantRun = -1 // start while a verification is pending: the statement does not say who wins
				// the verification may already be over when this start is processed: requests seen from now on are legitimate
				e.startAfterVerify = true
			} else if e.wantRun != -1 || true {
				if !e.verifyPending {
					e.wantRun = 1
				}
			}
		case "stop":
			ok = e.call("Stop", func() { e.t.Stop() })
			e.wantRun = 0
		case "verify":
			reqBefore := e.reqSeen()
			ok = e.call("Verify", func() { e.t.Verify() })
			e.wantRun = 0
			e.verifyPending = true
			e.startAfterVerify = false
			e.dirty = false // everything on disk is going to be re-hashed
			_ = reqBefore
		case "announce":
			ok = e.call("Announce", func() { e.t.Announce() })
		case "addpeer":
			ok = e.call("AddPeer", func() { e.addPeers() })
		case "addtracker":
			if e.trk2 != nil {
				ok = e.call("AddTracker", func() { e.t.AddTracker(e.trk2.URL) })
			}
		case "stats":
		case "pause1":
			time.Sleep(time.Duration(1+r.Intn(40)) * time.Millisecond)
		case "pause2":
			time.Sleep(time.Duration(120+r.Intn(100)) * time.Millisecond)
		case "wait":
			reqBefore := e.reqSeen()
			wasVerify := e.verifyPending
			e.settle(when)
			if wasVerify && !e.startAfterVerify && e.reqSeen() > reqBefore {
				// data was requested between the verify command's settle start and the end: a verification must not download
				e.bad("verify-downloaded-data", "piece data was requested from a peer while a verification request was being carried out (%d requests)", e.reqSeen()-reqBefore)
			}
		case "reopen":
			ok = e.call("Session.Close", func() { e.s.Close() })
			e.s = nil
			if h := e.prov.OpenHandles(); h != 0 {
				e.bad("closed-session-with-open-files", "session closed with %d data files still open", h)
			}
			if !e.startSession() {
				return
			}
			e.t = e.s.GetTorrent(e.tid)
			if e.t == nil {
				e.bad("torrent-lost-on-reopen", "torrent %s is gone after closing and reopening the session", e.tid)
				ok = false
				break
			}
			e.wantRun = -1
			e.verifyPending = false
		default: // mutations: only while stopped and quiescent
			if strings.HasPrefix(step, "mutate-") {
				e.settle(when + " (pre-mutation)")
				st := e.t.Stats()
				if st.Status != torrent.Stopped {
					e.tr("%s skipped: not stopped", step)
					continue
				}
				names := e.st.Names()
				switch step {
				case "mutate-corrupt":
					if len(names) > 0 {
						nm := names[r.Intn(len(names))]
						d := e.st.Snapshot(nm)
						if len(d) > 0 {
							d[r.Intn(len(d))] ^= 0x55
							e.st.Put(nm, d)
							e.dirty = true
						}
					}
				case "mutate-truncate":
					if len(names) > 0 {
						nm := names[r.Intn(len(names))]
						d := e.st.Snapshot(nm)
						e.st.Put(nm, d[:len(d)/2])
						if len(d) > 0 {
							e.dirty = true
						}
					}
				case "mutate-delete-one":
					if len(names) > 0 {
						e.st.Delete(names[r.Intn(len(names))])
					}
				case "mutate-delete-all":
					for _, nm := range names {
						e.st.Delete(nm)
					}
				}
				e.tr("%s applied", step)
				continue
			}
		}
		if step != "wait" && step != "reopen" && ok {
			e.checkStats(when)
		}
	}
	// final convergence: start again with a reachable seed
	if ok && len(e.viol) == 0 && !e.removed && e.t != nil {
		e.applySlow(false)
		e.settle("end of history")
		e.verifyPending = false
		if len(e.viol) == 0 {
			if e.call("Start", func() { e.t.Start() }) {
				e.wantRun = 1
				e.call("AddPeer", func() { e.addPeers() })
				t0 := time.Now()
				done := sess.WaitFor(40*time.Second, func() bool {
					st := e.t.Stats()
					if st.Status != torrent.Seeding && st.Status != torrent.Stopped {
						e.addPeers()
					}
					return st.Status == torrent.Seeding
				})
				st := e.checkStats("final start")
				if !done {
					if vx.CanaryWorstSince(t0) > 2*time.Second {
						run.Inconclusive("canary late in final convergence")
					} else {
						e.bad("no-convergence", "final Start with a reachable honest seed: status %s with %d/%d pieces after 40 s (error %v)", st.Status, st.Pieces.Have, st.Pieces.Total, st.Error)
					}
				} else if badf := sess.CheckFiles(e.st, e.l, e.truth); len(badf) > 0 {
					e.bad("converged-with-wrong-files"+e.dirtySfx(), "final Start ended Seeding but %v", badf)
				} else {
					run.Count("histories_converged", 1)
				}
			}
		}
	}
	for _, v := range e.viol {
		sig := v[0] // class of the violated predicate; the history is in the replay file
		tail := e.trace
		if len(tail) > 40 {
			tail = tail[len(tail)-40:]
		}
		run.Violation(sig, fmt.Sprintf("history %d (%s): %s", k, h, v[1]), map[string]any{"history": h, "trace": tail})
	}
	run.Count("steps", int64(len(h.Steps)))
	run.Distinct(vx.Hash(h.String(), strings.Join(statusOrder(e.trace), ">")))
	if k%37 == 3 {
		t := e.trace
		if len(t) > 14 {
			t = t[:14]
		}
		run.Sample(map[string]any{"history": h.String(), "trace": t})
	}
}

// statusOrder extracts the sequence of states seen (interleaving fingerprint)
func statusOrder(trace []string) []string {
	var o []string
	for _, l := range trace {
		if i := strings.Index(l, "-> "); i >= 0 {
			f := strings.Fields(l[i+3:])
			if len(f) > 0 && (len(o) == 0 || o[len(o)-1] != f[0]) {
				o = append(o, f[0])
			}
		}
	}
	return o
}

func allHistories() []hist {
	hs := regressions()
	if run.Quick() {
		en := enumerate(3)
		// quick: every third enumerated history (rotating with the seed) + PRNG
		for i, h := range en {
			if (i+int(run.Seed))%5 == 0 {
				hs = append(hs, h)
			}
		}
		for i := 0; i < 60; i++ {
			hs = append(hs, randomHist(run.Rand("c04", i)))
		}
	} else {
		hs = append(hs, enumerate(4)...)
		for i := 0; i < 3000; i++ {
			hs = append(hs, randomHist(run.Rand("c04", i)))
		}
	}
	for i := range hs {
		hs[i].K = i
	}
	return hs
}

func main() {
	run = vx.Begin("C04", "exploration",
		"command histories on one torrent (memstore storage, scripted seeder and tracker): regression shapes + enumeration over {start,stop,verify,delete-all-files,wait} (quick: length<=3 sampled 1/5, thorough: all of length<=4) x initial {empty,partial,complete} x {none,slow Open} + PRNG histories of 3-10 steps over {start,stop,verify,announce,addpeer,addtracker,stats,wait,corrupt,truncate,delete-one,delete-all,reopen,pause} x slow {Open,ReadAt,WriteAt} x tracker answer to 'stopped' {ok,slow,silent}. After every step: Stats() truthfulness (Seeding => all pieces stored and hashing; Stopped => no peers/downloads/open files; Completed consistent with pieces held); at quiescence: last of start/stop/verify took effect; finally Start + reachable seed must converge to correct files. distinct = distinct (history, sequence of states seen)")
	vx.StartCanary()
	hs := allHistories()
	if vx.ChildRole() == "hist" {
		lo, hi := vx.ChildRange()
		for k := lo; k < hi && k < len(hs); k++ {
			if run.Violations() >= 6 {
				break
			}
			runHistory(k, hs[k])
		}
		run.Finish(0)
	}
	run.Set("histories", len(hs))
	run.RunChildren("hist", len(hs), 16, "c04-", 90*time.Second, func(res vx.ChildResult, k int, logp string) {
		h := hs[k]
		pt := vx.NormalisePanic(res.PanicText)
		_ = h.shape
		run.Violation("crash:"+pt+"|"+res.RainFrame, fmt.Sprintf("history %d (%s): client crashed: %s at %s (log %s)", k, h, res.PanicText, res.RainFrame, logp), map[string]any{"history": h, "tail": res.Tail})
	})
	run.Assume("a Start issued while a verification request is still being carried out is not judged (the statement gives both an outcome)")
	run.Assume("file mutations happen only while the torrent is Stopped and quiescent")
	run.Finish(40)
}
