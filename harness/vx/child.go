package vx

import (
	"bufio"
	"encoding/json"
	"fmt"
	"os"
	"os/exec"
	"path/filepath"
	"regexp"
	"strings"
	"sync"
	"syscall"
	"time"
)

// Child processes: the harness binary re-executes itself with VX_CHILD=<role>.
// In a child, Run methods append JSON lines to VX_CHILD_OUT instead of
// aggregating; the parent merges them. One panic in rain ends only that child.

type childLine struct {
	T      string `json:"t"`
	K      string `json:"k,omitempty"`
	N      int64  `json:"n,omitempty"`
	Sig    string `json:"sig,omitempty"`
	What   string `json:"what,omitempty"`
	Replay any    `json:"replay,omitempty"`
	V      any    `json:"v,omitempty"`
}

var childOut *os.File
var childMu sync.Mutex

// ChildRole returns the role this process was spawned for ("" in the parent).
func ChildRole() string { return os.Getenv("VX_CHILD") }

func childEmit(l childLine) {
	childMu.Lock()
	defer childMu.Unlock()
	if childOut == nil {
		p := os.Getenv("VX_CHILD_OUT")
		f, err := os.OpenFile(p, os.O_CREATE|os.O_WRONLY|os.O_APPEND, 0o644)
		if err != nil {
			fmt.Fprintln(os.Stderr, "child: cannot open", p, err)
			os.Exit(3)
		}
		childOut = f
	}
	b, _ := json.Marshal(l)
	childOut.Write(append(b, '\n'))
}

// CaseStart / CaseEnd bracket one scenario in a child so the parent can tell
// which scenario a crash belongs to. The line is on disk before the case runs.
func (r *Run) CaseStart(id string) {
	if ChildRole() != "" {
		childEmit(childLine{T: "start", K: id})
	}
}
func (r *Run) CaseEnd(id string) {
	if ChildRole() != "" {
		childEmit(childLine{T: "end", K: id})
	}
}

// CaseEndDeferred is CaseEnd for use in a defer statement: when the goroutine is panicking the case
// stays open (so that the parent attributes the crash to it) and the panic continues.
func (r *Run) CaseEndDeferred(id string) {
	if p := recover(); p != nil {
		panic(p)
	}
	r.CaseEnd(id)
}

// ChildResult is what the parent learns about one child.
type ChildResult struct {
	Exit      int
	Crashed   bool
	TimedOut  bool
	PanicText string // first panic / fatal error line
	RainFrame string // first github.com/cenkalti/rain frame of the crashing goroutine (not verifx)
	OpenCase  string // case that had started and not ended
	LastEnded string // last case that ended
	Cases     int    // cases ended
	LogPath   string
	Tail      string
}

var panicRe = regexp.MustCompile(`(?m)^(panic: .*|fatal error: .*)$`)
var frameRe = regexp.MustCompile(`(?m)^(github\.com/cenkalti/rain/v2/[^\s(]+(?:\([^)]*\))?[^\s(]*)\(`)

// Spawn runs this binary as a child with the given role and env additions, waits
// (SIGQUIT after timeout so a hung child leaves a goroutine dump) and merges what
// the child recorded.
func (r *Run) Spawn(role string, env []string, timeout time.Duration) ChildResult {
	self, _ := os.Executable()
	if rb := os.Getenv("VX_USE_BIN"); rb != "" {
		self = rb
	}
	return r.SpawnBin(self, role, env, timeout)
}

var spawnN int
var spawnMu sync.Mutex

func (r *Run) SpawnBin(bin, role string, env []string, timeout time.Duration) ChildResult {
	spawnMu.Lock()
	spawnN++
	n := spawnN
	spawnMu.Unlock()
	dir := filepath.Join(r.Work, fmt.Sprintf("child%d", n))
	os.MkdirAll(dir, 0o755)
	outPath := filepath.Join(dir, "events.jsonl")
	logPath := filepath.Join(dir, "output.log")
	lf, _ := os.Create(logPath)
	cmd := exec.Command(bin)
	cmd.Dir = dir
	cmd.Stdout = lf
	cmd.Stderr = lf
	cmd.Env = append(os.Environ(), "VX_CHILD="+role, "VX_CHILD_OUT="+outPath, "VX_WORK="+dir, "TMPDIR="+dir, "GOTRACEBACK=all")
	cmd.Env = append(cmd.Env, env...)
	cmd.SysProcAttr = &syscall.SysProcAttr{Setpgid: true}
	res := ChildResult{LogPath: logPath}
	if err := cmd.Start(); err != nil {
		res.Crashed = true
		res.PanicText = "spawn: " + err.Error()
		return res
	}
	done := make(chan error, 1)
	go func() { done <- cmd.Wait() }()
	select {
	case <-done:
	case <-time.After(timeout):
		res.TimedOut = true
		cmd.Process.Signal(syscall.SIGQUIT)
		select {
		case <-done:
		case <-time.After(20 * time.Second):
			syscall.Kill(-cmd.Process.Pid, syscall.SIGKILL)
			<-done
		}
	}
	lf.Close()
	res.Exit = cmd.ProcessState.ExitCode()
	// merge events
	open := ""
	if f, err := os.Open(outPath); err == nil {
		sc := bufio.NewScanner(f)
		sc.Buffer(make([]byte, 1<<20), 64<<20)
		for sc.Scan() {
			var l childLine
			if json.Unmarshal(sc.Bytes(), &l) != nil {
				continue
			}
			switch l.T {
			case "start":
				open = l.K
			case "end":
				if open == l.K {
					open = ""
				}
				res.LastEnded = l.K
				res.Cases++
			case "eval":
				r.Eval(int(l.N))
			case "count":
				r.Count(l.K, l.N)
			case "max":
				r.Max(l.K, l.N)
			case "distinct":
				r.Distinct(l.K)
			case "sample":
				r.Sample(l.V)
			case "inconclusive":
				r.Inconclusive(l.What)
			case "viol":
				r.Violation(l.Sig, l.What, l.Replay)
			}
		}
		f.Close()
	}
	res.OpenCase = open
	if res.Exit != 0 || res.TimedOut {
		b, _ := os.ReadFile(logPath)
		s := string(b)
		if m := panicRe.FindString(s); m != "" {
			res.PanicText = m
			res.Crashed = true
			rest := s[strings.Index(s, m):]
			for _, fm := range frameRe.FindAllStringSubmatch(rest, 40) {
				if !strings.Contains(fm[1], "/verifx/") {
					res.RainFrame = fm[1]
					break
				}
			}
		} else if res.Exit != 0 && !res.TimedOut {
			res.Crashed = true
			res.PanicText = fmt.Sprintf("exit status %d", res.Exit)
		}
		if len(s) > 6000 {
			s = s[len(s)-6000:]
		}
		res.Tail = s
	}
	return res
}

// KeepLog copies a child's log into the replay directory and returns the path.
func (r *Run) KeepLog(res ChildResult, name string) string {
	dir := filepath.Join(r.Dir, "replays", r.ID)
	os.MkdirAll(dir, 0o755)
	p := filepath.Join(dir, name)
	b, err := os.ReadFile(res.LogPath)
	if err != nil {
		return ""
	}
	if len(b) > 4<<20 {
		b = b[len(b)-(4<<20):]
	}
	os.WriteFile(p, b, 0o644)
	return p
}

// RunChildren partitions cases [0,n) over `children` child processes of the given role
// (VX_RANGE=lo-hi). A child that dies is restarted after the case it died in; onCrash
// decides what that crash means for the property (violation / inconclusive).
// Case ids written with CaseStart must begin with prefix followed by the case number.
func (r *Run) RunChildren(role string, n, children int, prefix string, perCase time.Duration, onCrash func(res ChildResult, k int, logPath string)) {
	if children < 1 {
		children = 1
	}
	per := (n + children - 1) / children
	var wg sync.WaitGroup
	for c := 0; c < children; c++ {
		lo, hi := c*per, (c+1)*per
		if hi > n {
			hi = n
		}
		if lo >= hi {
			continue
		}
		wg.Add(1)
		go func(lo, hi int) {
			defer wg.Done()
			crashes := 0
			for lo < hi {
				if crashes >= 6 {
					r.Inconclusive(fmt.Sprintf("%s cases %d..%d not run: the child died 6 times in this range", role, lo, hi-1))
					return
				}
				res := r.Spawn(role, []string{fmt.Sprintf("VX_RANGE=%d-%d", lo, hi)}, time.Duration(hi-lo)*perCase+2*time.Minute)
				if !res.Crashed && !res.TimedOut {
					return
				}
				if res.Exit == ExitAbortedCase && (res.OpenCase != "" || res.LastEnded != "") {
					// the child judged a case itself (non-termination, or inconclusive under load) and gave up its
					// process: its verdict has been reported already, the exit is not a crash
					c := res.OpenCase
					if c == "" {
						c = res.LastEnded
					}
					k := lo
					fmt.Sscanf(strings.TrimPrefix(c, prefix), "%d", &k)
					if k < lo {
						k = lo
					}
					lo = k + 1
					continue
				}
				if res.OpenCase == "" {
					r.Inconclusive(role + " child ended abnormally outside a case: " + res.PanicText)
					return
				}
				k := -1
				fmt.Sscanf(strings.TrimPrefix(res.OpenCase, prefix), "%d", &k)
				if k < lo {
					k = lo // unparsable case id: never go backwards
				}
				crashes++
				logp := r.KeepLog(res, fmt.Sprintf("crash-%s%d.log", prefix, k))
				if res.TimedOut && !res.Crashed {
					r.Inconclusive(fmt.Sprintf("%s%d: child watchdog (log %s)", prefix, k, logp))
				} else {
					onCrash(res, k, logp)
				}
				lo = k + 1
			}
		}(lo, hi)
	}
	wg.Wait()
}

// ExitAbortedCase is the exit status of a child that reported a verdict for its current case and
// cannot continue in this process (a goroutine of the code under test is stuck).
const ExitAbortedCase = 7

// ChildRange parses VX_RANGE.
func ChildRange() (lo, hi int) {
	fmt.Sscanf(os.Getenv("VX_RANGE"), "%d-%d", &lo, &hi)
	return
}

var idRe = regexp.MustCompile(`\(id=[^)]*\)|torrent [A-Za-z0-9_-]{10,}|0x[0-9a-f]+|#\d+`)

// NormalisePanic strips ids, addresses and numbers from a panic line so that it can serve as a signature.
func NormalisePanic(s string) string {
	s = idRe.ReplaceAllString(s, "*")
	if i := strings.Index(s, " Saving goroutine stacks"); i > 0 {
		s = s[:i]
	}
	if len(s) > 160 {
		s = s[:160]
	}
	return s
}
