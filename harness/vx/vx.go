// Package vx is the shared runtime of the /verif harness: seeds, verdicts,
// known-finding matching, evidence files, child processes.
package vx

import (
	"crypto/sha1"
	"encoding/hex"
	"encoding/json"
	"fmt"
	"math/rand"
	"os"
	"path/filepath"
	"runtime"
	"sort"
	"strconv"
	"strings"
	"sync"
	"time"
)

// Run is one invocation of one property's check.
type Run struct {
	ID    string
	Tier  string
	Seed  int64
	Dir   string // /verif
	Work  string // scratch work dir
	Level string
	Rule  string
	Start time.Time

	mu           sync.Mutex
	evals        int64
	distinct     map[string]struct{}
	samples      []any
	counts       map[string]int64
	extra        map[string]any
	assumptions  []string
	violations   int
	knownMatched map[string]int
	known        []Finding
	inconclusive []string
	exhaustive   bool
	replayN      int
	maxSamples   int
}

// Finding is one line of /verif/known_findings.jsonl.
type Finding struct {
	Status   string `json:"status"` // known | fixed
	Property string `json:"property"`
	Sig      string `json:"sig"` // signature of the failing input / call site / history shape
	What     string `json:"what"`
	Commit   string `json:"commit,omitempty"`
}

// Begin reads the environment prepared by /verif/check.
func Begin(id, level, rule string) *Run {
	r := &Run{ID: id, Level: level, Rule: rule, Start: time.Now(),
		distinct: map[string]struct{}{}, counts: map[string]int64{}, extra: map[string]any{},
		knownMatched: map[string]int{}, maxSamples: 6}
	r.Tier = os.Getenv("VERIF_TIER")
	if r.Tier != "thorough" {
		r.Tier = "quick"
	}
	r.Seed, _ = strconv.ParseInt(os.Getenv("VERIF_SEED"), 10, 64)
	r.Dir = os.Getenv("VERIF_DIR")
	if r.Dir == "" {
		r.Dir = "/verif"
	}
	r.Work = os.Getenv("VX_WORK")
	if r.Work == "" {
		r.Work, _ = os.MkdirTemp("", "vxwork")
	}
	// wall-clock watchdog: its firing is INCONCLUSIVE, never a verdict
	wd := 30 * time.Minute
	if r.Tier == "thorough" {
		wd = 6 * time.Hour
	}
	if v, err := time.ParseDuration(os.Getenv("VX_WATCHDOG")); err == nil && v > 0 {
		wd = v
	}
	if os.Getenv("VX_CHILD") == "" {
		go func() {
			time.Sleep(wd)
			buf := make([]byte, 1<<20)
			n := runtime.Stack(buf, true)
			os.Stderr.Write(buf[:n])
			fmt.Printf("INCONCLUSIVE property=%s watchdog fired after %s\n", id, wd)
			os.Exit(2)
		}()
	}
	if os.Getenv("VX_CHILD") == "" {
		// replays of an earlier run of the same tier and seed would be misleading
		old, _ := filepath.Glob(filepath.Join(r.Dir, "replays", id, fmt.Sprintf("%s-seed%d-*", r.Tier, r.Seed)))
		for _, p := range old {
			os.Remove(p)
		}
	}
	f, err := os.ReadFile(filepath.Join(r.Dir, "known_findings.jsonl"))
	if err == nil {
		for _, ln := range strings.Split(string(f), "\n") {
			ln = strings.TrimSpace(ln)
			if ln == "" || strings.HasPrefix(ln, "#") {
				continue
			}
			var k Finding
			if json.Unmarshal([]byte(ln), &k) == nil && k.Property == id && k.Status == "known" {
				r.known = append(r.known, k)
			}
		}
	}
	return r
}

func (r *Run) Quick() bool    { return r.Tier == "quick" }
func (r *Run) Thorough() bool { return r.Tier == "thorough" }

// N picks the tier's bound.
func (r *Run) N(quick, thorough int) int {
	if r.Thorough() {
		return thorough
	}
	return quick
}

// Rand returns the PRNG of case k: a pure function of (seed, stream, k).
func (r *Run) Rand(stream string, k int) *rand.Rand {
	return rand.New(rand.NewSource(Mix(r.Seed, stream, k)))
}

// Mix derives a 63-bit seed from (seed, stream, k).
func Mix(seed int64, stream string, k int) int64 {
	h := sha1.Sum([]byte(fmt.Sprintf("%d/%s/%d", seed, stream, k)))
	var v int64
	for i := 0; i < 8; i++ {
		v = v<<8 | int64(h[i])
	}
	if v < 0 {
		v = -v
	}
	return v
}

// Eval counts executed cases.
func (r *Run) Eval(n int) {
	if ChildRole() != "" {
		childEmit(childLine{T: "eval", N: int64(n)})
		return
	}
	r.mu.Lock()
	r.evals += int64(n)
	r.mu.Unlock()
}

// Distinct records the fingerprint of a non-trivial case.
func (r *Run) Distinct(fp string) {
	if ChildRole() != "" {
		childEmit(childLine{T: "distinct", K: fp})
		return
	}
	r.mu.Lock()
	if len(r.distinct) < 2_000_000 {
		r.distinct[fp] = struct{}{}
	}
	r.mu.Unlock()
}

// DistinctN is for harnesses that count distinct cases themselves (children).
func (r *Run) DistinctAdd(fps []string) {
	r.mu.Lock()
	for _, fp := range fps {
		r.distinct[fp] = struct{}{}
	}
	r.mu.Unlock()
}

func (r *Run) Count(kind string, n int64) {
	if ChildRole() != "" {
		childEmit(childLine{T: "count", K: kind, N: n})
		return
	}
	r.mu.Lock()
	r.counts[kind] += n
	r.mu.Unlock()
}

func (r *Run) GetCount(kind string) int64 {
	r.mu.Lock()
	defer r.mu.Unlock()
	return r.counts[kind]
}

func (r *Run) Max(kind string, n int64) {
	if ChildRole() != "" {
		childEmit(childLine{T: "max", K: kind, N: n})
		return
	}
	r.mu.Lock()
	if n > r.counts[kind] {
		r.counts[kind] = n
	}
	r.mu.Unlock()
}

func (r *Run) Set(key string, v any) {
	r.mu.Lock()
	r.extra[key] = v
	r.mu.Unlock()
}

func (r *Run) Assume(s string) { r.mu.Lock(); r.assumptions = append(r.assumptions, s); r.mu.Unlock() }

func (r *Run) SetExhaustive(b bool) { r.mu.Lock(); r.exhaustive = b; r.mu.Unlock() }

// Sample keeps a few actual cases for the evidence file.
func (r *Run) Sample(v any) {
	if ChildRole() != "" {
		childEmit(childLine{T: "sample", V: v})
		return
	}
	r.mu.Lock()
	if len(r.samples) < r.maxSamples {
		r.samples = append(r.samples, v)
	}
	r.mu.Unlock()
}

// Inconclusive records a case that could not be judged.
func (r *Run) Inconclusive(why string) {
	if ChildRole() != "" {
		childEmit(childLine{T: "inconclusive", What: why})
		return
	}
	r.mu.Lock()
	if len(r.inconclusive) < 50 {
		r.inconclusive = append(r.inconclusive, why)
	}
	r.counts["inconclusive"]++
	r.mu.Unlock()
}

// Violation reports a refuting observation. sig names the failing input class /
// call site / history shape; it is what known_findings.jsonl entries match on.
// Returns true if it was a NEW violation (not a listed finding).
func (r *Run) Violation(sig, what string, replay any) bool {
	if ChildRole() != "" {
		childEmit(childLine{T: "viol", Sig: sig, What: what, Replay: replay})
		r.mu.Lock()
		r.violations++
		r.mu.Unlock()
		return true
	}
	r.mu.Lock()
	defer r.mu.Unlock()
	for _, k := range r.known {
		if k.Sig == sig {
			if r.knownMatched[sig] == 0 {
				fmt.Printf("KNOWN-FINDING: property=%s %s [sig=%s]\n", r.ID, k.What, sig)
			}
			r.knownMatched[sig]++
			return false
		}
	}
	r.violations++
	r.counts["violation:"+sig]++
	if r.violations > 20 {
		return true
	}
	r.replayN++
	dir := filepath.Join(r.Dir, "replays", r.ID)
	_ = os.MkdirAll(dir, 0o755)
	p := filepath.Join(dir, fmt.Sprintf("%s-seed%d-%d.json", r.Tier, r.Seed, r.replayN))
	b, _ := json.MarshalIndent(map[string]any{"property": r.ID, "sig": sig, "what": what, "seed": r.Seed, "tier": r.Tier, "replay": replay}, "", " ")
	_ = os.WriteFile(p, b, 0o644)
	fmt.Printf("VIOLATION property=%s replay=%s\n", r.ID, p)
	fmt.Printf("  sig=%s\n  %s\n", sig, what)
	return true
}

// Enough reports that so many violations were seen that further cases add nothing.
func (r *Run) Enough() bool { r.mu.Lock(); defer r.mu.Unlock(); return r.violations >= 25 }

func (r *Run) Violations() int { r.mu.Lock(); defer r.mu.Unlock(); return r.violations }

// Finish writes the evidence file and exits with the verdict.
// floor: minimum number of distinct non-trivial cases for a conclusive run.
func (r *Run) Finish(floor int) {
	if ChildRole() != "" {
		os.Exit(0)
	}
	r.mu.Lock()
	cov := map[string]any{
		"evaluations":         r.evals,
		"distinct_nontrivial": len(r.distinct),
		"rule":                r.Rule,
		"samples":             r.samples,
		"events":              r.counts,
		"inconclusive_cases":  r.inconclusive,
	}
	if r.exhaustive {
		cov["exhaustive"] = true
	}
	km := map[string]int{}
	for k, v := range r.knownMatched {
		km[k] = v
	}
	cov["known_findings_matched"] = km
	for k, v := range r.extra {
		cov[k] = v
	}
	if len(r.samples) == 0 {
		cov["samples"] = []any{"(no case reached the sampling point)"}
	}
	if r.assumptions == nil {
		r.assumptions = []string{}
	}
	if r.inconclusive == nil {
		cov["inconclusive_cases"] = []string{}
	}
	ev := map[string]any{
		"property_id": r.ID, "tier": r.Tier, "seed": r.Seed, "level": r.Level,
		"coverage": cov, "assumptions": r.assumptions,
		"wall_s": time.Since(r.Start).Seconds(), "violations": r.violations,
	}
	viol := r.violations
	nd := len(r.distinct)
	evals := r.evals
	r.mu.Unlock()
	b, _ := json.MarshalIndent(ev, "", " ")
	_ = os.MkdirAll(filepath.Join(r.Dir, "evidence"), 0o755)
	p := filepath.Join(r.Dir, "evidence", r.ID+".json")
	_ = os.WriteFile(p+".tmp", b, 0o644)
	_ = os.Rename(p+".tmp", p)
	keys := make([]string, 0, len(r.counts))
	for k := range r.counts {
		keys = append(keys, k)
	}
	sort.Strings(keys)
	var sb strings.Builder
	for _, k := range keys {
		fmt.Fprintf(&sb, " %s=%d", k, r.counts[k])
	}
	fmt.Printf("%s %s seed=%d evaluations=%d distinct_nontrivial=%d violations=%d wall=%.1fs%s\n",
		r.ID, r.Tier, r.Seed, evals, nd, viol, time.Since(r.Start).Seconds(), sb.String())
	if viol > 0 {
		os.Exit(1)
	}
	if nd < floor || evals == 0 {
		fmt.Printf("INCONCLUSIVE property=%s observed too little (distinct=%d floor=%d)\n", r.ID, nd, floor)
		os.Exit(2)
	}
	os.Exit(0)
}

// Hash is a short fingerprint helper.
func Hash(parts ...any) string {
	h := sha1.New()
	for _, p := range parts {
		fmt.Fprintf(h, "%v|", p)
	}
	return hex.EncodeToString(h.Sum(nil))[:16]
}

// Parallel runs f(k) for k in [0,n) on w workers.
func Parallel(n, w int, f func(k int)) {
	if w < 1 {
		w = 1
	}
	var wg sync.WaitGroup
	ch := make(chan int, 64)
	for i := 0; i < w; i++ {
		wg.Add(1)
		go func() {
			defer wg.Done()
			for k := range ch {
				f(k)
			}
		}()
	}
	for k := 0; k < n; k++ {
		ch <- k
	}
	close(ch)
	wg.Wait()
}

// Try runs f and converts a panic into a string (ok=false).
func Try(f func()) (panicText string, ok bool) {
	defer func() {
		if e := recover(); e != nil {
			panicText = fmt.Sprint(e)
			ok = false
		}
	}()
	f()
	return "", true
}

// ---- load canary: a verdict that depends on "nothing happened for a while" is
// valid only if this goroutine kept its 10 ms schedule during that window.
type lateEv struct {
	at   time.Time
	late time.Duration
}

var canaryMu sync.Mutex
var canaryLate []lateEv
var canaryOnce sync.Once

func StartCanary() {
	canaryOnce.Do(func() {
		go func() {
			last := time.Now()
			for {
				time.Sleep(10 * time.Millisecond)
				now := time.Now()
				late := now.Sub(last) - 10*time.Millisecond
				last = now
				if late > 100*time.Millisecond {
					canaryMu.Lock()
					canaryLate = append(canaryLate, lateEv{now, late})
					if len(canaryLate) > 10000 {
						canaryLate = canaryLate[5000:]
					}
					canaryMu.Unlock()
				}
			}
		}()
	})
}

// CanaryWorstSince returns the worst scheduling lateness (>100 ms) observed since t0.
func CanaryWorstSince(t0 time.Time) time.Duration {
	canaryMu.Lock()
	defer canaryMu.Unlock()
	var w time.Duration
	for _, e := range canaryLate {
		if e.at.After(t0) && e.late > w {
			w = e.late
		}
	}
	return w
}
