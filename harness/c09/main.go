// C09: piece-selection invariants. A mini event loop that issues exactly the
// picker calls torrent/* issues (same order, same guards) drives the real
// PiecePicker on PRNG event histories; a shadow model is compared after every
// operation.
package main

import (
	"fmt"
	"io"
	"math/rand"
	"net/http"
	"os"
	"runtime"
	"sort"
	"strings"
	"time"

	"github.com/cenkalti/rain/v2/internal/allocator"
	"github.com/cenkalti/rain/v2/internal/bitfield"
	"github.com/cenkalti/rain/v2/internal/bufferpool"
	"github.com/cenkalti/rain/v2/internal/logger"
	"github.com/cenkalti/rain/v2/internal/metainfo"
	"github.com/cenkalti/rain/v2/internal/peer"
	"github.com/cenkalti/rain/v2/internal/piece"
	"github.com/cenkalti/rain/v2/internal/piecepicker"
	"github.com/cenkalti/rain/v2/internal/storage"
	"github.com/cenkalti/rain/v2/internal/urldownloader"
	"github.com/cenkalti/rain/v2/internal/webseedsource"
	"github.com/cenkalti/rain/v2/verifx/gen"
	"github.com/cenkalti/rain/v2/verifx/vx"
	"github.com/rcrowley/go-metrics"
)

var run *vx.Run

// zero transport: serves any range request with zero bytes, no sockets.
type zeroRT struct{}

type zeroBody struct{ n int64 }

func (z *zeroBody) Read(p []byte) (int, error) {
	if z.n <= 0 {
		return 0, io.EOF
	}
	n := int64(len(p))
	if n > z.n {
		n = z.n
	}
	clear(p[:n])
	z.n -= n
	return int(n), nil
}
func (z *zeroBody) Close() error { return nil }

func (zeroRT) RoundTrip(r *http.Request) (*http.Response, error) {
	var a, b int64
	fmt.Sscanf(r.Header.Get("Range"), "bytes=%d-%d", &a, &b)
	return &http.Response{StatusCode: 206, Body: &zeroBody{n: b - a + 1}, Header: http.Header{}, Request: r}, nil
}

var zclient = &http.Client{Transport: zeroRT{}}

type nullFile struct{}

func (nullFile) ReadAt(p []byte, off int64) (int, error)  { return len(p), nil }
func (nullFile) WriteAt(p []byte, off int64) (int, error) { return len(p), nil }
func (nullFile) Close() error                             { return nil }

var _ storage.File = nullFile{}

type pd struct { // mirror of a piece downloader as far as the picker cares
	pe          *peer.Peer
	idx         uint32
	allowedFast bool
}

type wsrc struct {
	src   *webseedsource.WebseedSource
	resC  chan *urldownloader.PieceResult
	begin uint32 // shadow of the assigned range
	end   uint32
	cur   uint32
	live  bool
}

type sim struct {
	r          *rand.Rand
	wsHold     bool // web seeds wait for their retry timer
	pieces     []piece.Piece
	pp         *piecepicker.PiecePicker
	peers      []*peer.Peer
	names      map[*peer.Peer]string
	dls        map[*peer.Peer]*pd
	dlsChoked  map[*peer.Peer]bool
	dlsSnubbed map[*peer.Peer]bool
	maxDup     int
	seq        bool
	ws         []*wsrc
	wsActive   int
	wsMax      int
	pool       *bufferpool.Pool
	// one write in flight at most
	writing    *piece.Piece
	writingSrc any // *peer.Peer or *wsrc
	// shadow model
	have   map[*peer.Peer]map[uint32]bool
	af     map[*peer.Peer]map[uint32]bool
	edges  map[uint32]bool
	log    []string
	viol   []string
	nextID int
	picks  int
	fpKinds map[string]bool
}

func (s *sim) logf(f string, a ...any) { s.log = append(s.log, fmt.Sprintf(f, a...)) }
func (s *sim) bad(sig, f string, a ...any) {
	s.viol = append(s.viol, sig+"\x00"+fmt.Sprintf(f, a...))
}

func (s *sim) downloadingWebseed() bool {
	for _, w := range s.ws {
		if w.src.Downloading() {
			return true
		}
	}
	return false
}

// model helpers
func (s *sim) requesters(i uint32) []*peer.Peer {
	var out []*peer.Peer
	for pe, d := range s.dls {
		if d.idx == i {
			out = append(out, pe)
		}
	}
	return out
}

func (s *sim) eligible(pe *peer.Peer) []uint32 {
	var out []uint32
	for i := range s.pieces {
		p := &s.pieces[i]
		if p.Done || p.Writing || len(s.requesters(uint32(i))) > 0 || !s.have[pe][uint32(i)] {
			continue
		}
		out = append(out, uint32(i))
	}
	return out
}

// ---- mirror of torrent_start.go startSinglePieceDownloader (ram unlimited, status Downloading)
func (s *sim) pickFor(pe *peer.Peer) {
	wasDownloading := pe.Downloading
	wsDownloading := s.downloadingWebseed()
	elig := s.eligible(pe)
	edgesTaken := true
	for e := range s.edges {
		p := &s.pieces[e]
		if !(p.Done || p.Writing || len(s.requesters(e)) > 0) {
			edgesTaken = false
		}
	}
	choking := pe.PeerChoking
	pi, allowedFast := s.pp.PickFor(pe)
	s.picks++
	if pi == nil {
		s.logf("pick %s -> nil", s.names[pe])
		return
	}
	s.logf("pick %s -> #%d af=%v", s.names[pe], pi.Index, allowedFast)
	idx := pi.Index
	if wasDownloading {
		s.bad("pick-while-downloading", "PickFor returned piece %d for %s which already runs a download", idx, s.names[pe])
	}
	if pi.Done || pi.Writing {
		s.bad("pick-done-or-writing", "PickFor returned piece %d (Done=%v Writing=%v)", idx, pi.Done, pi.Writing)
	}
	if !s.have[pe][idx] {
		s.bad("pick-peer-lacks", "PickFor returned piece %d which %s does not have", idx, s.names[pe])
	}
	if choking && !s.af[pe][idx] {
		s.bad("pick-from-choking", "PickFor returned piece %d for choking peer %s without allowed-fast", idx, s.names[pe])
	}
	if allowedFast && !s.af[pe][idx] {
		s.bad("pick-af-flag", "PickFor flagged piece %d allowed-fast but %s never granted it", idx, s.names[pe])
	}
	others := len(s.requesters(idx))
	lim := s.maxDup
	if lim < 1 {
		lim = 1
	}
	if others+1 > lim {
		s.bad("dup-limit", "piece %d now has %d simultaneous downloads, limit %d", idx, others+1, lim)
	}
	if others > 0 {
		s.fpKinds["dup-pick"] = true
	}
	// sequential order: unchoking peer, no web-seed download running, every file-edge piece taken
	if s.seq && !choking && !wsDownloading && edgesTaken && len(elig) > 0 {
		s.fpKinds["seq-ordered-pick"] = true
		var afElig []uint32
		for _, e := range elig {
			if s.af[pe][e] {
				afElig = append(afElig, e)
			}
		}
		want := elig[0]
		if len(afElig) > 0 {
			// the client's ladder serves granted allowed-fast pieces first; lowest of those
			want = afElig[0]
		}
		if idx != want {
			s.bad("sequential-order", "sequential: %s got piece %d, lowest eligible is %d (eligible %v, allowed-fast eligible %v)", s.names[pe], idx, want, elig, afElig)
		}
	}
	d := &pd{pe: pe, idx: idx, allowedFast: allowedFast}
	if _, ok := s.dls[pe]; ok {
		s.bad("second-downloader", "peer %s got a second piece downloader", s.names[pe])
		return
	}
	s.dls[pe] = d
	pe.Downloading = true
}

func (s *sim) closePD(d *pd) {
	if _, ok := s.dls[d.pe]; !ok {
		return
	}
	delete(s.dls, d.pe)
	delete(s.dlsChoked, d.pe)
	delete(s.dlsSnubbed, d.pe)
	s.pp.HandleCancelDownload(d.pe, d.idx)
	d.pe.Downloading = false
}

func (s *sim) startAll() { // startPieceDownloaders
	for _, w := range s.shuffledWS() {
		if s.wsHold {
			break // the sources are still waiting for their retry timer
		}
		if !w.src.Downloading() && !w.src.Disabled {
			if !s.startWebseed(w) {
				break
			}
		}
	}
	for _, pe := range s.shuffledPeers() {
		if !pe.Downloading {
			s.pickFor(pe)
		}
	}
}

func (s *sim) shuffledPeers() []*peer.Peer {
	ps := append([]*peer.Peer(nil), s.peers...)
	s.r.Shuffle(len(ps), func(i, j int) { ps[i], ps[j] = ps[j], ps[i] })
	return ps
}
func (s *sim) shuffledWS() []*wsrc { return s.ws } // the client iterates a slice: fixed order

func (s *sim) startWebseed(w *wsrc) bool {
	if s.wsActive >= s.wsMax {
		return false
	}
	// snapshot for the oracle
	type rg struct{ b, e uint32 }
	var before []rg
	for _, o := range s.ws {
		if o.src.Downloader != nil {
			before = append(before, rg{o.src.Downloader.ReadCurrent(), o.src.Downloader.End})
		}
	}
	sp := s.pp.PickWebseed(w.src)
	if sp == nil {
		s.logf("pickweb %s -> nil", w.src.URL)
		return false
	}
	s.logf("pickweb %s -> [%d,%d)", w.src.URL, sp.Begin, sp.End)
	s.fpKinds["web-range"] = true
	if sp.Begin >= sp.End || int(sp.End) > len(s.pieces) {
		s.bad("web-range-bounds", "web range [%d,%d) invalid", sp.Begin, sp.End)
		return false
	}
	for i := sp.Begin; i < sp.End; i++ {
		if len(s.requesters(i)) > 0 {
			s.fpKinds["web-range-over-requested-piece"] = true
		}
		if s.pieces[i].Done || s.pieces[i].Writing {
			s.bad("web-range-has-done", "web range [%d,%d) assigned to %s contains piece %d (Done=%v Writing=%v)", sp.Begin, sp.End, w.src.URL, i, s.pieces[i].Done, s.pieces[i].Writing)
		}
	}
	// no overlap with ranges of other live downloaders (as they are NOW, after a possible steal)
	for _, o := range s.ws {
		if o == w || o.src.Downloader == nil {
			continue
		}
		ob, oe := o.src.Downloader.Begin, o.src.Downloader.End
		if sp.Begin < oe && ob < sp.End {
			s.bad("web-range-overlap", "web range [%d,%d) for %s overlaps [%d,%d) of %s", sp.Begin, sp.End, w.src.URL, ob, oe, o.src.URL)
		}
	}
	// startWebseedDownloader
	ud := urldownloader.New(w.src.URL, sp.Begin, sp.End, nil)
	if w.src.Downloader != nil {
		return true // mirrors the early return in the client
	}
	w.src.Downloader = ud
	w.src.Disabled = false
	w.src.LastError = nil
	w.src.DownloadSpeed = metrics.NewMeter()
	w.resC = make(chan *urldownloader.PieceResult)
	w.live = true
	go ud.Run(zclient, s.pieces, true, w.resC, s.pool, 10*time.Second)
	s.wsActive++
	return true
}

func (s *sim) closeWS(w *wsrc) {
	s.pp.CloseWebseedDownloader(w.src)
	w.live = false
}

// web seed delivers its next piece (handleWebseedPieceResult)
func (s *sim) webResult(w *wsrc, corrupt bool) {
	if s.writing != nil || w.src.Downloader == nil {
		return
	}
	ud := w.src.Downloader
	var msg *urldownloader.PieceResult
	select {
	case msg = <-w.resC:
	case <-time.After(10 * time.Second):
		s.viol = append(s.viol, "inconclusive\x00web downloader produced no result in 10s")
		return
	}
	if msg.Error != nil {
		s.viol = append(s.viol, "inconclusive\x00web downloader error "+msg.Error.Error())
		return
	}
	if !msg.Done {
		for i := 0; ud.ReadCurrent() != msg.Index+1 && i < 2000; i++ {
			time.Sleep(50 * time.Microsecond)
		}
	}
	s.logf("webresult %s #%d done=%v corrupt=%v", w.src.URL, msg.Index, msg.Done, corrupt)
	p := &s.pieces[msg.Index]
	if p.Done {
		msg.Buffer.Release()
		if msg.Done {
			for _, o := range s.ws {
				if o.src.Downloader != msg.Downloader {
					continue
				}
				s.closeWS(o)
				s.wsActive--
				s.startWebseed(o)
				break
			}
		}
		return
	}
	if p.Writing {
		s.bad("double-write", "web result for piece %d while it is Writing", msg.Index)
		return
	}
	p.Writing = true
	s.writing = p
	s.writingSrc = w
	s.fpKinds["web-write"] = true
	msg.Buffer.Release()
	if corrupt {
		s.writingSrc = wcorrupt{w, ud}
	} else {
		s.writingSrc = wok{w, ud}
	}
	if msg.Done {
		for _, o := range s.ws {
			if o.src.URL != msg.Downloader.URL {
				continue
			}
			s.closeWS(o)
			s.wsActive--
			s.startWebseed(o)
			break
		}
	}
}

type wok struct {
	w  *wsrc
	ud *urldownloader.URLDownloader
}
type wcorrupt struct {
	w  *wsrc
	ud *urldownloader.URLDownloader
}

// peer finished all blocks of its piece (tail of handlePieceMessage)
func (s *sim) blockComplete(pe *peer.Peer, corrupt bool) {
	d, ok := s.dls[pe]
	if !ok || s.writing != nil {
		return
	}
	p := &s.pieces[d.idx]
	s.logf("complete %s #%d corrupt=%v", s.names[pe], d.idx, corrupt)
	s.closePD(d)
	if p.Writing {
		s.bad("double-write", "piece %d completed by %s while Writing", d.idx, s.names[pe])
		return
	}
	p.Writing = true
	s.writing = p
	for _, w := range s.ws {
		if dl := w.src.Downloader; dl != nil && w.live && d.idx > dl.ReadCurrent() && d.idx < dl.End {
			s.fpKinds["peer-completes-piece-inside-web-range"] = true
		}
	}
	if corrupt {
		s.writingSrc = pcorrupt{pe}
	} else {
		s.writingSrc = pe
	}
	s.pickFor(pe)
}

type pcorrupt struct{ pe *peer.Peer }

// handlePieceWriteDone
func (s *sim) writeDone() {
	if s.writing == nil {
		return
	}
	p := s.writing
	src := s.writingSrc
	s.writing = nil
	s.writingSrc = nil
	p.Writing = false
	switch x := src.(type) {
	case pcorrupt:
		s.logf("writedone #%d corrupt from peer %s", p.Index, s.names[x.pe])
		s.fpKinds["hash-fail-peer"] = true
		s.disconnect(x.pe)
		s.startAll()
		return
	case wcorrupt:
		s.logf("writedone #%d corrupt from web %s", p.Index, x.w.src.URL)
		s.fpKinds["hash-fail-web"] = true
		x.w.src.Disabled = true
		s.closeWS(x.w)
		s.wsActive--
		s.startAll()
		return
	}
	s.logf("writedone #%d ok", p.Index)
	p.Done = true
	_, fromWeb := src.(wok)
	wsrcOwner := s.pp.RequestedWebseedSource(p.Index)
	if !fromWeb && wsrcOwner != nil {
		closed := s.pp.WebseedStopAt(wsrcOwner, p.Index)
		s.fpKinds["web-stop-at"] = true
		if closed {
			for _, o := range s.ws {
				if o.src == wsrcOwner {
					o.live = false
					s.wsActive--
					s.startWebseed(o)
				}
			}
		}
	}
	for _, pe := range s.pp.RequestedPeers(p.Index) {
		d := s.dls[pe]
		if d == nil {
			s.bad("requested-without-downloader", "piece %d lists requester %s which has no download", p.Index, s.names[pe])
			continue
		}
		s.closePD(d)
		s.pickFor(pe)
	}
}

func (s *sim) disconnect(pe *peer.Peer) {
	// closePeer
	if pe.Closed {
		return
	}
	pe.Closed = true
	if d, ok := s.dls[pe]; ok {
		s.closePD(d)
	}
	for i, q := range s.peers {
		if q == pe {
			s.peers = append(s.peers[:i], s.peers[i+1:]...)
			break
		}
	}
	s.pp.HandleDisconnect(pe)
	delete(s.have, pe)
	delete(s.af, pe)
}

func (s *sim) connect() *peer.Peer {
	pe := &peer.Peer{Bitfield: bitfield.New(uint32(len(s.pieces))), PeerChoking: true, ClientChoking: true}
	s.nextID++
	s.names[pe] = fmt.Sprintf("p%d", s.nextID)
	s.peers = append(s.peers, pe)
	s.have[pe] = map[uint32]bool{}
	s.af[pe] = map[uint32]bool{}
	return pe
}

// ---- invariants checked after every operation
func (s *sim) check() {
	// available == |{p : some connected peer has p}|
	av := 0
	for i := range s.pieces {
		for _, pe := range s.peers {
			if s.have[pe][uint32(i)] {
				av++
				break
			}
		}
	}
	if int(s.pp.Available()) != av {
		s.bad("available-count", "Available()=%d but %d pieces are held by at least one connected peer", s.pp.Available(), av)
	}
	lim := s.maxDup
	if lim < 1 {
		lim = 1
	}
	for i := range s.pieces {
		rp := s.pp.RequestedPeers(uint32(i))
		mine := s.requesters(uint32(i))
		if len(rp) != len(mine) {
			s.bad("requested-set", "piece %d: picker lists %d requesters, the event history implies %d", i, len(rp), len(mine))
		}
		if len(rp) > lim {
			s.bad("dup-limit", "piece %d has %d simultaneous downloads, limit %d", i, len(rp), lim)
		}
		if len(rp) > 0 && (s.pieces[i].Done) {
			s.bad("download-of-done", "piece %d is Done but still downloading from %d peers", i, len(rp))
		}
	}
	// web ranges pairwise disjoint, ownership consistent
	for a := 0; a < len(s.ws); a++ {
		da := s.ws[a].src.Downloader
		if da == nil {
			continue
		}
		for b := a + 1; b < len(s.ws); b++ {
			db := s.ws[b].src.Downloader
			if db == nil {
				continue
			}
			if da.Begin < db.End && db.Begin < da.End {
				s.bad("web-range-overlap", "web ranges [%d,%d) and [%d,%d) overlap", da.Begin, da.End, db.Begin, db.End)
			}
		}
	}
}

func runHistory(k int) (fp string, viol []string, lg []string, desc string) {
	r := run.Rand("hist", k)
	np := 1 + r.Intn(40)
	if r.Intn(4) == 0 {
		np = 1 + r.Intn(6)
	} else if k%6 == 5 {
		np = 40 + r.Intn(120) // web seed ranges are 5 % of the pieces: only here do they span several pieces
	}
	// layout: a few files so that sequential mode has several file edges
	l := &gen.Layout{Name: "p", PieceLen: 16384, Seed: int64(k)}
	left := int64(np)*16384 - int64(r.Intn(16000))
	nf := 1 + r.Intn(4)
	for i := 0; i < nf; i++ {
		var ln int64
		if i == nf-1 {
			ln = left
		} else {
			ln = 1 + r.Int63n(left/int64(nf-i)+1)
		}
		if ln > left-int64(nf-1-i) {
			ln = left - int64(nf-1-i)
		}
		if ln < 1 {
			ln = 1
		}
		left -= ln
		l.Files = append(l.Files, gen.FileSpec{Path: []string{fmt.Sprintf("f%d", i)}, Length: ln})
	}
	truth := make([]byte, l.Total())
	info, err := metainfo.NewInfo(l.InfoBytes(truth), true, true)
	if err != nil {
		return "", []string{"inconclusive\x00layout rejected: " + err.Error()}, nil, ""
	}
	files := make([]allocator.File, len(info.Files))
	for i, f := range info.Files {
		files[i] = allocator.File{Storage: nullFile{}, Name: f.Path, Padding: f.Padding}
	}
	pieces := piece.NewPieces(info, files)
	s := &sim{r: r, pieces: pieces, names: map[*peer.Peer]string{}, dls: map[*peer.Peer]*pd{}, dlsChoked: map[*peer.Peer]bool{}, dlsSnubbed: map[*peer.Peer]bool{},
		have: map[*peer.Peer]map[uint32]bool{}, af: map[*peer.Peer]map[uint32]bool{}, edges: map[uint32]bool{}, fpKinds: map[string]bool{}}
	s.maxDup = []int{1, 2, 3, 20}[r.Intn(4)]
	s.seq = r.Intn(2) == 0
	s.wsMax = 1 + r.Intn(3)
	s.pool = bufferpool.New(16384)
	nws := 0
	if r.Intn(3) == 0 {
		nws = 1 + r.Intn(3)
	}
	var srcs []*webseedsource.WebseedSource
	for i := 0; i < nws; i++ {
		srcs = append(srcs, webseedsource.NewList([]string{fmt.Sprintf("http://w%d/", i)})...)
	}
	for _, src := range srcs {
		s.ws = append(s.ws, &wsrc{src: src})
	}
	// some pieces already done at start
	if r.Intn(3) == 0 {
		for i := range pieces {
			if r.Intn(3) == 0 {
				pieces[i].Done = true
			}
		}
	}
	// independent file-edge computation (1% of the file, at most 8 MiB, at least one byte)
	{
		var off int64
		pl := int64(16384)
		mark := func(b0, b1 int64) { // pieces overlapping flat bytes [b0,b1)
			for i := b0 / pl; i <= (b1-1)/pl; i++ {
				s.edges[uint32(i)] = true
			}
		}
		for _, f := range l.Files {
			n := f.Length / 100
			if n > 8<<20 {
				n = 8 << 20
			}
			if n < 1 {
				n = 1
			}
			if n > f.Length {
				n = f.Length
			}
			mark(off, off+n)
			mark(off+f.Length-n, off+f.Length)
			off += f.Length
		}
	}
	s.pp = piecepicker.New(pieces, s.maxDup, srcs, s.seq)
	if os.Getenv("C09_DEBUG") == fmt.Sprint(k) {
		fmt.Println("DEBUG layout", l.String(), "edges", keys(s.edges))
		for i := range pieces {
			fmt.Println(" piece", i, "done", pieces[i].Done, "sections", len(pieces[i].Data))
			for _, sec := range pieces[i].Data {
				fmt.Println("    ", sec.Name, sec.Offset, sec.Length)
			}
		}
	}
	desc = fmt.Sprintf("pieces=%d files=%d seq=%v maxDup=%d webseeds=%d wsMax=%d", np, nf, s.seq, s.maxDup, nws, s.wsMax)
	defer func() {
		for _, w := range s.ws {
			if w.src.Downloader != nil {
				ud := w.src.Downloader
				go func(c chan *urldownloader.PieceResult) { // drain so Close can finish
					for range c {
					}
				}(w.resC)
				ud.Close()
			}
		}
	}()
	nops := 10 + r.Intn(70)
	s.wsHold = len(s.ws) > 0 && (r.Intn(3) == 0 || np >= 40) // web seeds that become usable only later (retry after an error)
	pt, ok := vx.Try(func() {
		s.startAll()
		s.check()
		for op := 0; op < nops && len(s.viol) == 0; op++ {
			var pe *peer.Peer
			if len(s.peers) > 0 {
				pe = s.peers[r.Intn(len(s.peers))]
			}
			c := r.Intn(100)
			switch {
			case c < 8 || pe == nil:
				if len(s.peers) < 6 {
					p := s.connect()
					s.logf("connect %s", s.names[p])
					// first message: bitfield / have-all / nothing
					switch r.Intn(4) {
					case 0:
						for i := range s.pieces {
							s.pp.HandleHave(p, uint32(i))
							s.have[p][uint32(i)] = true
						}
						s.logf("haveall %s", s.names[p])
						s.pickFor(p)
					case 1, 2:
						dens := []int{2, 2, 6, 12}[r.Intn(4)] // also peers holding only a few pieces
						for i := range s.pieces {
							if r.Intn(dens) == 0 {
								s.pp.HandleHave(p, uint32(i))
								s.have[p][uint32(i)] = true
							}
						}
						s.logf("bitfield %s %v", s.names[p], keys(s.have[p]))
						s.pickFor(p)
					}
				}
			case c < 20:
				i := uint32(r.Intn(len(s.pieces)))
				s.logf("have %s #%d", s.names[pe], i)
				s.pp.HandleHave(pe, i)
				s.have[pe][i] = true
				s.pickFor(pe)
			case c < 28:
				i := uint32(r.Intn(len(s.pieces)))
				s.logf("allowedfast %s #%d", s.names[pe], i)
				s.pp.HandleAllowedFast(pe, i)
				s.af[pe][i] = true
			case c < 42: // unchoke
				s.logf("unchoke %s", s.names[pe])
				pe.PeerChoking = false
				d, ok := s.dls[pe]
				if !ok {
					s.pickFor(pe)
					break
				}
				if d.allowedFast {
					break
				}
				delete(s.dlsChoked, pe)
				s.pp.HandleUnchoke(pe, d.idx)
			case c < 52: // choke
				s.logf("choke %s", s.names[pe])
				pe.PeerChoking = true
				d, ok := s.dls[pe]
				if !ok {
					break
				}
				if d.allowedFast {
					break
				}
				s.dlsChoked[pe] = true
				delete(s.dlsSnubbed, pe)
				s.pp.HandleChoke(pe, d.idx)
				s.fpKinds["choke-mid-download"] = true
				s.startAll()
			case c < 60: // snub timer
				if d, ok := s.dls[pe]; ok {
					if pe.PeerChoking {
						break
					}
					s.logf("snub %s", s.names[pe])
					pe.Snubbed = true
					s.dlsSnubbed[pe] = true
					s.pp.HandleSnubbed(pe, d.idx)
					s.fpKinds["snub"] = true
					s.startAll()
				}
			case c < 78:
				s.blockComplete(pe, r.Intn(8) == 0)
			case c < 90:
				s.writeDone()
			case c < 94:
				s.logf("disconnect %s", s.names[pe])
				s.disconnect(pe)
				s.fpKinds["disconnect"] = true
			default:
				if s.wsHold {
					if r.Intn(2) == 0 {
						// the web seeds' retry timer fires while peers are already downloading
						s.wsHold = false
						s.logf("webseed-retry-timer")
						s.fpKinds["webseed-late-start"] = true
						s.startAll()
					}
				} else if len(s.ws) > 0 {
					w := s.ws[r.Intn(len(s.ws))]
					s.webResult(w, r.Intn(10) == 0)
				}
			}
			s.check()
		}
	})
	if !ok {
		s.viol = append(s.viol, "picker-panic\x00picker panicked under a legal operation order: "+pt)
	}
	var kinds []string
	for k := range s.fpKinds {
		kinds = append(kinds, k)
	}
	sort.Strings(kinds)
	run.Count("ops", int64(len(s.log)))
	run.Count("picks", int64(s.picks))
	for _, kk := range kinds {
		run.Count("hist_with_"+kk, 1)
	}
	if os.Getenv("VX_DEBUG_C09") != "" && s.fpKinds["web-range-over-requested-piece"] && k%200 == 0 {
		fmt.Fprintf(os.Stderr, "DEBUG history %d: %s\n", k, strings.Join(s.log, " ; "))
	}
	if s.picks > 0 {
		fp = vx.Hash(strings.Join(s.log, ";"))
	}
	return fp, s.viol, s.log, desc
}

func keys(m map[uint32]bool) []uint32 {
	var o []uint32
	for k := range m {
		o = append(o, k)
	}
	sort.Slice(o, func(i, j int) bool { return o[i] < o[j] })
	return o
}

func main() {
	run = vx.Begin("C09", "exploration",
		"PRNG event histories (1-6 peers, 1-40 pieces over 1-4 files, 0-3 web seeds, rarest/sequential, end-game limit {1,2,3,20}) issued through a mirror of the torrent's handlers to the real PiecePicker; shadow model compared after every operation. distinct = distinct operation logs with at least one pick")
	logger.Disable()
	n := run.N(30000, 600000)
	vx.Parallel(n, runtime.NumCPU(), func(k int) {
		if run.Enough() {
			return
		}
		fp, viol, lg, desc := runHistory(k)
		run.Eval(1)
		for _, v := range viol {
			parts := strings.SplitN(v, "\x00", 2)
			if parts[0] == "inconclusive" {
				run.Inconclusive(parts[1])
				continue
			}
			tail := lg
			if len(tail) > 60 {
				tail = tail[len(tail)-60:]
			}
			run.Violation(parts[0], fmt.Sprintf("history %d (%s): %s", k, desc, parts[1]), map[string]any{"history": k, "config": desc, "log_tail": tail})
		}
		if fp != "" {
			run.Distinct(fp)
		}
		if k < 3 {
			t := lg
			if len(t) > 25 {
				t = t[:25]
			}
			run.Sample(map[string]any{"config": desc, "ops": t})
		}
	})
	run.Assume("the mirror of torrent/* handlers (which picker call follows which event) was transcribed from the source at build time of this harness; drift is cross-checked by the in-loop hook in session checks")
	run.Finish(200)
}
