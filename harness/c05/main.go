// C05: crash-consistent resume. A leecher child on real files (rain's own
// filestorage behind a counting wrapper) downloads from a reference seeder run
// by the parent and is killed with SIGKILL at an enumerated crash point (k-th
// storage write: before / in the middle / after; a drawn instant; or the N-th
// write / sync system call on the resume database, injected with strace). After
// each death the parent inspects the database file, computes the disk truth,
// restarts the client in a second child and reads what it claims through a
// reference peer, also with subsets of the files deleted.
package main

import (
	"bufio"
	"bytes"
	"crypto/sha1"
	"fmt"
	"net"
	"os"
	"os/exec"
	"path/filepath"
	"sort"
	"strconv"
	"strings"
	"sync"
	"sync/atomic"
	"syscall"
	"time"

	"github.com/cenkalti/rain/v2/internal/resumer/boltdbresumer"
	"github.com/cenkalti/rain/v2/internal/storage"
	"github.com/cenkalti/rain/v2/internal/storage/filestorage"
	"github.com/cenkalti/rain/v2/internal/verifhook"
	"github.com/cenkalti/rain/v2/torrent"
	"github.com/cenkalti/rain/v2/verifx/evlog"
	"github.com/cenkalti/rain/v2/verifx/gen"
	"github.com/cenkalti/rain/v2/verifx/refpeer"
	"github.com/cenkalti/rain/v2/verifx/refwire"
	"github.com/cenkalti/rain/v2/verifx/sess"
	"github.com/cenkalti/rain/v2/verifx/vx"
	"go.etcd.io/bbolt"
)

var run *vx.Run

const tid = "crashme"

// ------------------------------------------------------------------ child side: storage wrapper with crash points

type crashProvider struct {
	root  string
	kind  string // entry | partial | exit | none
	at    int64
	count atomic.Int64
}

func (p *crashProvider) GetStorage(id string) (storage.Storage, error) {
	fs, err := filestorage.New(filepath.Join(p.root, id), 0o750)
	if err != nil {
		return nil, err
	}
	return &crashStorage{p: p, fs: fs}, nil
}

type crashStorage struct {
	p  *crashProvider
	fs *filestorage.FileStorage
}

func (s *crashStorage) RootDir() string { return s.fs.RootDir() }
func (s *crashStorage) Open(name string, size int64) (storage.File, bool, error) {
	f, ex, err := s.fs.Open(name, size)
	if err != nil {
		return f, ex, err
	}
	if of, ok := f.(*os.File); ok {
		if b, err := os.ReadFile(fmt.Sprintf("/proc/self/fdinfo/%d", of.Fd())); err == nil {
			for _, l := range strings.Split(string(b), "\n") {
				if strings.HasPrefix(l, "flags:") {
					fmt.Printf("FDFLAGS %s %s\n", name, strings.TrimSpace(strings.TrimPrefix(l, "flags:")))
				}
			}
		}
	} else {
		fmt.Printf("FDFLAGS %s not-an-os-file\n", name)
	}
	return &crashFile{p: s.p, f: f}, ex, nil
}

type crashFile struct {
	p *crashProvider
	f storage.File
}

func die() {
	os.Stdout.Sync()
	syscall.Kill(os.Getpid(), syscall.SIGKILL)
	select {}
}

func (c *crashFile) ReadAt(b []byte, off int64) (int, error) { return c.f.ReadAt(b, off) }
func (c *crashFile) Close() error                            { return c.f.Close() }
func (c *crashFile) WriteAt(b []byte, off int64) (int, error) {
	n := c.p.count.Add(1)
	if n == c.p.at {
		switch c.p.kind {
		case "entry":
			fmt.Printf("CRASHPOINT entry write#%d\n", n)
			die()
		case "partial":
			c.f.WriteAt(b[:len(b)/2], off)
			fmt.Printf("CRASHPOINT partial write#%d\n", n)
			die()
		}
	}
	if n == c.p.at && c.p.kind == "ioerr" {
		// the disk refuses this write (ENOSPC); the client lives on for a few persistence intervals, then the process dies
		fmt.Printf("CRASHPOINT ioerr write#%d\n", n)
		go func() { time.Sleep(120 * time.Millisecond); die() }()
		return 0, syscall.ENOSPC
	}
	k, err := c.f.WriteAt(b, off)
	if n == c.p.at && c.p.kind == "exit" {
		fmt.Printf("CRASHPOINT exit write#%d\n", n)
		die()
	}
	return k, err
}

func childConfig(dir string, c *torrent.Config) {
	c.ResumeWriteInterval = 5 * time.Millisecond
	c.ResumeOnStartup = true
	c.DataDirIncludesTorrentID = true
}

// installCrashHook: in-code crash point, the process dies at the at-th hit of the named point of rain's own code
func installCrashHook(kind string, at int64) {
	pt := os.Getenv("C05_POINT")
	if kind != "hook" || pt == "" {
		return
	}
	var hits atomic.Int64
	verifhook.Set(func(name string) {
		if name == pt && hits.Add(1) == at {
			fmt.Printf("CRASHPOINT hook %s#%d\n", pt, at)
			die()
		}
	})
}

// leech: download until the crash point (or completion)
func leech() {
	dir := os.Getenv("C05_DIR")
	kind, at := "none", int64(0)
	fmt.Sscanf(os.Getenv("C05_CRASH"), "%s %d", &kind, &at)
	prov := &crashProvider{root: filepath.Join(dir, "data"), kind: kind, at: at}
	installCrashHook(kind, at)
	cfg := torrent.DefaultConfig
	_ = cfg
	s, _, err := newSession(dir, prov)
	if err != nil {
		fmt.Println("ERROR session", err)
		os.Exit(4)
	}
	t := s.GetTorrent(tid)
	if t == nil {
		tb, _ := os.ReadFile(os.Getenv("C05_TORRENT"))
		t, err = s.AddTorrent(bytes.NewReader(tb), &torrent.AddTorrentOptions{ID: tid})
		if err != nil {
			fmt.Println("ERROR add", err)
			os.Exit(4)
		}
	}
	t.AddPeer(os.Getenv("C05_SEEDER"))
	hist := os.Getenv("C05_HIST")
	go func() {
		switch hist {
		case "stopstart":
			time.Sleep(150 * time.Millisecond)
			t.Stop()
			time.Sleep(80 * time.Millisecond)
			t.Start()
			time.Sleep(50 * time.Millisecond)
			t.AddPeer(os.Getenv("C05_SEEDER"))
		case "verify":
			time.Sleep(200 * time.Millisecond)
			t.Verify()
			time.Sleep(300 * time.Millisecond)
			t.Start()
			time.Sleep(50 * time.Millisecond)
			t.AddPeer(os.Getenv("C05_SEEDER"))
		}
	}()
	dl := time.Now().Add(20 * time.Second)
	for time.Now().Before(dl) {
		st := t.Stats()
		if st.Status == torrent.Seeding {
			fmt.Printf("DONE writes=%d\n", prov.count.Load())
			s.Close()
			os.Exit(0)
		}
		time.Sleep(5 * time.Millisecond)
	}
	fmt.Printf("TIMEOUT writes=%d\n", prov.count.Load())
	os.Exit(5)
}

func newSession(dir string, prov storage.Provider) (*torrent.Session, torrent.Config, error) {
	return sess.New(sess.Opts{Dir: dir, Mutate: func(c *torrent.Config) {
		childConfig(dir, c)
		c.CustomStorage = prov
		if h := os.Getenv("C05_HOST"); h != "" {
			c.Host = h
			var pb int
			fmt.Sscanf(os.Getenv("C05_PORTS"), "%d", &pb)
			c.PortBegin, c.PortEnd = uint16(pb), uint16(pb+30)
		}
	}})
}

// restart: open the session on what the dead process left behind and report
func restart() {
	dir := os.Getenv("C05_DIR")
	prov := &crashProvider{root: filepath.Join(dir, "data"), kind: "none"}
	kind, at := "none", int64(0)
	fmt.Sscanf(os.Getenv("C05_CRASH"), "%s %d", &kind, &at)
	installCrashHook(kind, at)
	s, cfg, err := newSession(dir, prov)
	if err != nil {
		fmt.Println("ERROR session", err)
		os.Exit(4)
	}
	t := s.GetTorrent(tid)
	if t == nil {
		fmt.Println("NOTORRENT")
		os.Stdout.Sync()
		time.Sleep(200 * time.Millisecond)
		os.Exit(0)
	}
	t.Start()
	for {
		st := t.Stats()
		fmt.Printf("STATUS %s have=%d addr=%s err=%v\n", st.Status, st.Pieces.Have, sess.ListenAddr(cfg, t), st.Error)
		os.Stdout.Sync()
		time.Sleep(30 * time.Millisecond)
	}
}

// ------------------------------------------------------------------ parent side

type scenario struct {
	k      int
	kind   string // entry | partial | exit | timed | strace-pwrite | strace-sync | hook
	at     int
	point  string // kind hook: name of the verifhook point inside rain
	hist   string // plain | stopstart | verify
	layout *gen.Layout
}

func diskTruth(dataDir string, l *gen.Layout, info []byte) (have []bool, present []bool) {
	np := l.NumPieces()
	have = make([]bool, np)
	truthHashes := l.PieceHashes(l.Truth())
	// assemble what is on disk
	buf := make([]byte, l.Total())
	present = make([]bool, len(l.Files))
	for i := range l.Files {
		off, end := l.FileRange(i)
		b, err := os.ReadFile(filepath.Join(dataDir, tid, filepath.FromSlash(l.JoinedPath(i))))
		if err == nil {
			present[i] = true
			copy(buf[off:end], b)
		}
	}
	for p := 0; p < np; p++ {
		o := int64(p) * int64(l.PieceLen)
		e := o + int64(l.PieceLen)
		if e > l.Total() {
			e = l.Total()
		}
		h := sha1.Sum(buf[o:e])
		// a piece is on disk only if every file it touches exists
		ok := bytes.Equal(h[:], truthHashes[p*20:p*20+20])
		for i := range l.Files {
			fo, fe := l.FileRange(i)
			if fo < e && fe > o && fe > fo && !present[i] {
				ok = false
			}
		}
		have[p] = ok
	}
	return
}

func bits(bf []byte, n int) []bool {
	out := make([]bool, n)
	for i := 0; i < n && i/8 < len(bf); i++ {
		out[i] = bf[i/8]&(0x80>>uint(i%8)) != 0
	}
	return out
}

func excess(claim, disk []bool) []int {
	var x []int
	for i := range claim {
		if claim[i] && (i >= len(disk) || !disk[i]) {
			x = append(x, i)
		}
	}
	return x
}

var portBase atomic.Int64

func spawn(role string, dir string, env []string, wrap []string) (*exec.Cmd, *bufio.Scanner, *bytes.Buffer) {
	self, _ := os.Executable()
	args := append(append([]string{}, wrap...), self)
	cmd := exec.Command(args[0], args[1:]...)
	cmd.Env = append(os.Environ(), "VX_CHILD="+role, "C05_DIR="+dir, "VX_WORK="+dir, "TMPDIR="+dir)
	cmd.Env = append(cmd.Env, env...)
	cmd.SysProcAttr = &syscall.SysProcAttr{Setpgid: true}
	out, _ := cmd.StdoutPipe()
	var errb bytes.Buffer
	cmd.Stderr = &errb
	if err := cmd.Start(); err != nil {
		return nil, nil, &errb
	}
	sc := bufio.NewScanner(out)
	sc.Buffer(make([]byte, 1<<16), 1<<22)
	return cmd, sc, &errb
}

func killGroup(cmd *exec.Cmd) {
	if cmd != nil && cmd.Process != nil {
		syscall.Kill(-cmd.Process.Pid, syscall.SIGKILL)
		cmd.Wait()
	}
}

// readClaims starts the restart child, waits until the client has settled and reads its claims through a reference peer
func readClaims(sc scenario, dir string, ih [20]byte, host string, pb int, log *evlog.Log) (claims []bool, status string, statHave int, ok bool, note string) {
	cmd, out, errb := spawn("restart", dir, []string{"C05_HOST=" + host, fmt.Sprintf("C05_PORTS=%d", pb)}, nil)
	if cmd == nil {
		return nil, "", 0, false, "spawn failed"
	}
	defer killGroup(cmd)
	lines := make(chan string, 100)
	go func() {
		for out.Scan() {
			lines <- out.Text()
		}
		close(lines)
	}()
	var addr string
	deadline := time.After(25 * time.Second)
	settled := 0
	for {
		select {
		case l, more := <-lines:
			if !more {
				return nil, status, 0, false, "restart child ended: " + tail(errb.String(), 600)
			}
			if l == "NOTORRENT" {
				return nil, "absent", 0, true, "torrent not in the session after restart"
			}
			if strings.HasPrefix(l, "STATUS ") {
				var st, a, e string
				fmt.Sscanf(l, "STATUS %s have=%d addr=%s err=%s", &st, &statHave, &a, &e)
				status, addr = st, a
				if st == "Downloading" || st == "Seeding" {
					settled++
				} else if st == "Stopped" {
					settled++
				} else {
					settled = 0
				}
			}
		case <-deadline:
			return nil, status, statHave, false, "restarted client did not settle in 25 s (last status " + status + ")"
		}
		if settled >= 3 {
			break
		}
	}
	if status == "Stopped" {
		return nil, status, statHave, true, "stopped after restart"
	}
	c, err := refpeer.Dial("probe", sess.NextIP(), addr, refpeer.HSOpts{InfoHash: ih, PeerID: [20]byte{'-', 'R', 'F', '0', '0', '0', '1', '-', 'p'}, Fast: true, Ext: false, Crypto: "plain"}, log)
	if err != nil {
		return nil, status, statHave, false, "probe dial: " + err.Error()
	}
	defer c.Close()
	np := sc.layout.NumPieces()
	claims = make([]bool, np)
	end := time.Now().Add(600 * time.Millisecond)
	for time.Now().Before(end) {
		m, err := c.Read(200 * time.Millisecond)
		if err != nil {
			if ne, ok := err.(net.Error); ok && ne.Timeout() {
				continue
			}
			break
		}
		switch m.ID {
		case refwire.Bitfield:
			copy(claims, bits(m.Data, np))
		case refwire.HaveAll:
			for i := range claims {
				claims[i] = true
			}
		case refwire.Have:
			if int(m.Index) < np {
				claims[m.Index] = true
			}
		}
	}
	return claims, status, statHave, true, ""
}

func tail(s string, n int) string {
	if len(s) > n {
		return s[len(s)-n:]
	}
	return s
}

func runScenario(sc scenario) {
	label := fmt.Sprintf("c05-%d %s%s@%d hist=%s %s", sc.k, sc.kind, sc.point, sc.at, sc.hist, sc.layout)
	dir := filepath.Join(run.Work, fmt.Sprintf("s%d", sc.k))
	os.MkdirAll(dir, 0o755)
	defer os.RemoveAll(dir)
	l := sc.layout
	truth := l.Truth()
	info := l.InfoBytes(truth)
	ih := gen.InfoHash(info)
	tpath := filepath.Join(dir, "t.torrent")
	os.WriteFile(tpath, gen.TorrentBytes(info, nil, nil), 0o644)
	log := &evlog.Log{}
	ln, err := refpeer.Listen("seeder", sess.NextIP(), log)
	if err != nil {
		run.Inconclusive(label + ": " + err.Error())
		return
	}
	defer ln.Close()
	go func() {
		for {
			c, err := ln.Accept(refpeer.HSOpts{InfoHash: ih, PeerID: [20]byte{'-', 'R', 'F', '0', '0', '0', '1', '-', 's'}, Fast: true, Ext: true, Crypto: "auto"}, 20*time.Second)
			if err != nil {
				if strings.Contains(err.Error(), "handshake") {
					continue
				}
				return
			}
			go refpeer.RunSeeder(c, refpeer.SeederCfg{Content: sess.ContentOf(l, truth), Announce: "bitfield", Unchoke: "on-interested", ServeDelay: 3 * time.Millisecond}, &refpeer.SeederState{})
		}
	}()
	host := sess.NextIP()
	pb := 21000 + int(portBase.Add(1)*31%20000)
	env := []string{"C05_TORRENT=" + tpath, "C05_SEEDER=" + ln.Addr().String(), "C05_HIST=" + sc.hist, "C05_HOST=" + host, fmt.Sprintf("C05_PORTS=%d", pb)}
	var wrap []string
	switch sc.kind {
	case "entry", "partial", "exit", "ioerr":
		env = append(env, fmt.Sprintf("C05_CRASH=%s %d", sc.kind, sc.at))
	case "hook":
		env = append(env, fmt.Sprintf("C05_CRASH=hook %d", sc.at), "C05_POINT="+strings.TrimPrefix(sc.point, ":"))
	case "strace-pwrite", "strace-sync":
		call := map[string]string{"strace-pwrite": "pwrite64", "strace-sync": "fdatasync"}[sc.kind]
		wrap = []string{"strace", "-f", "-qq", "-o", "/dev/null", "-e", "trace=" + call, "-P", filepath.Join(dir, "session.db"), "-e", fmt.Sprintf("inject=%s:signal=KILL:when=%d", call, sc.at)}
	}
	run.Eval(1)
	cmd, out, errb := spawn("leech", dir, env, wrap)
	if cmd == nil {
		run.Inconclusive(label + ": spawn failed")
		return
	}
	var lines []string
	var lmu sync.Mutex
	done := make(chan struct{})
	go func() {
		for out.Scan() {
			lmu.Lock()
			lines = append(lines, out.Text())
			lmu.Unlock()
		}
		close(done)
	}()
	if sc.kind == "timed" {
		time.Sleep(time.Duration(sc.at) * time.Millisecond)
		syscall.Kill(-cmd.Process.Pid, syscall.SIGKILL)
	}
	select {
	case <-done:
	case <-time.After(40 * time.Second):
		syscall.Kill(-cmd.Process.Pid, syscall.SIGKILL)
		<-done
	}
	cmd.Wait()
	killGroup(cmd)
	lmu.Lock()
	outl := append([]string(nil), lines...)
	lmu.Unlock()
	finished := false
	for _, x := range outl {
		if strings.HasPrefix(x, "DONE") {
			finished = true
		}
		if strings.HasPrefix(x, "ERROR") || strings.HasPrefix(x, "TIMEOUT") {
			run.Inconclusive(label + ": leecher: " + x + " " + tail(errb.String(), 300))
			return
		}
		if strings.HasPrefix(x, "FDFLAGS ") {
			f := strings.Fields(x)
			fl, err := strconv.ParseInt(f[len(f)-1], 8, 64)
			run.Count("data_file_opens_checked", 1)
			if err != nil || fl&0o4010000 != 0o4010000 {
				run.Violation("data-file-open-without-O_SYNC", fmt.Sprintf("%s: data file %s is open with flags %s: not O_SYNC, a returned write is not durable", label, f[1], f[len(f)-1]), nil)
				return
			}
		}
	}
	if finished {
		run.Count("crash_point_beyond_end_of_history", 1)
	} else {
		run.Count("process_deaths", 1)
	}
	if strings.Contains(errb.String(), "panic:") {
		run.Violation("crash:"+vx.NormalisePanic(firstLine(errb.String(), "panic:")), label+": leecher crashed: "+tail(errb.String(), 500), nil)
		return
	}
	rep := map[string]any{"child_output_tail": outl[max(0, len(outl)-8):]}
	bad := func(sig, f string, a ...any) {
		run.Violation(sig, label+": "+fmt.Sprintf(f, a...), rep)
	}
	// (1) the database file
	dbp := filepath.Join(dir, "session.db")
	np := l.NumPieces()
	var dbBits []bool
	dbOK := false
	if _, err := os.Stat(dbp); err == nil {
		db, err := bbolt.Open(dbp, 0o600, &bbolt.Options{Timeout: 3 * time.Second})
		if err != nil {
			bad("resume-db-does-not-open", "database left by the dead process cannot be opened: %v", err)
			return
		}
		err = db.View(func(tx *bbolt.Tx) error {
			if e := <-tx.Check(); e != nil {
				return e
			}
			return nil
		})
		if err != nil {
			db.Close()
			bad("resume-db-inconsistent", "bbolt consistency check fails after the death: %v", err)
			return
		}
		has := false
		db.View(func(tx *bbolt.Tx) error {
			if b := tx.Bucket([]byte("torrents")); b != nil && b.Bucket([]byte(tid)) != nil {
				has = true
			}
			return nil
		})
		if has {
			res, _ := boltdbresumer.New(db, []byte("torrents"))
			spec, err := res.Read(tid)
			if err != nil {
				db.Close()
				bad("resume-record-unreadable", "resume record cannot be read after the death: %v", err)
				return
			}
			if !bytes.Equal(spec.InfoHash, ih[:]) || !bytes.Equal(spec.Info, info) {
				db.Close()
				bad("resume-record-not-a-completed-update", "resume record holds info-hash %x / %d info bytes, the torrent added has %x / %d", spec.InfoHash, len(spec.Info), ih, len(info))
				return
			}
			if len(spec.Bitfield) > 0 && len(spec.Bitfield) != (np+7)/8 {
				db.Close()
				bad("resume-record-not-a-completed-update", "resume bitfield has %d bytes for %d pieces", len(spec.Bitfield), np)
				return
			}
			dbBits = bits(spec.Bitfield, np)
			dbOK = true
		}
		db.Close()
	}
	disk, _ := diskTruth(filepath.Join(dir, "data"), l, info)
	if x := excess(dbBits, disk); len(x) > 0 {
		bad("resume-claims-piece-not-on-disk", "resume database claims pieces %v whose content on disk does not hash to the metainfo value (disk has %d of %d pieces, database claims %d)", x, count(disk), np, count(dbBits))
		return
	}
	run.Count("db_inspections", 1)
	if !dbOK {
		run.Count("died_before_record_existed", 1)
		run.Distinct(fmt.Sprintf("%s%s|%s|norecord", sc.kind, sc.point, sc.hist))
		return
	}
	// (2) restart and read claims at the client boundary
	claims, status, statHave, ok, note := readClaims(sc, dir, ih, host, pb, log)
	if !ok {
		run.Inconclusive(label + ": " + note)
		return
	}
	disk, _ = diskTruth(filepath.Join(dir, "data"), l, info)
	if claims != nil {
		if x := excess(claims, disk); len(x) > 0 {
			bad("restarted-client-claims-piece-not-on-disk", "after restart the client (status %s) announces pieces %v to a peer although their content on disk does not hash to the metainfo value (disk %d/%d, claimed %d)", status, x, count(disk), np, count(claims))
			return
		}
		if statHave > count(disk) {
			bad("restarted-client-claims-piece-not-on-disk:stats", "after restart Stats() reports %d pieces, the disk holds %d verified pieces", statHave, count(disk))
			return
		}
		run.Count("restarts_with_claims_checked", 1)
	}
	// (3) subsets of files missing at restart
	if len(l.Files) > 1 || true {
		var del []int
		switch sc.k % 3 {
		case 0:
			del = []int{0}
		case 1:
			for i := range l.Files {
				del = append(del, i)
			}
		default:
			del = []int{len(l.Files) - 1}
		}
		for _, i := range del {
			os.Remove(filepath.Join(dir, "data", tid, filepath.FromSlash(l.JoinedPath(i))))
		}
		diskBefore, _ := diskTruth(filepath.Join(dir, "data"), l, info)
		claims2, status2, statHave2, ok2, note2 := readClaims(sc, dir, ih, host, pb, log)
		if !ok2 {
			run.Inconclusive(label + ": missing files: " + note2)
			return
		}
		if claims2 != nil {
			if x := excess(claims2, diskBefore); len(x) > 0 {
				bad("missing-file-trusted", "files %v were deleted before the restart; the client (status %s) still announces pieces %v that touch them or are not on disk", del, status2, x)
				return
			}
			if statHave2 > count(diskBefore) {
				bad("missing-file-trusted:stats", "files %v deleted before the restart; Stats() reports %d pieces, %d can be on disk", del, statHave2, count(diskBefore))
				return
			}
			run.Count("restarts_with_missing_files_checked", 1)
		}
	}
	// (4) the process dies again while the restarted client re-checks files it found missing: delete another file,
	// restart, die right after the verifier has been started (the allocator has re-created the file by then), restart
	if len(l.Files) > 1 && sc.k%3 != 1 {
		other := len(l.Files) - 1
		if sc.k%3 == 2 {
			other = 0
		}
		os.Remove(filepath.Join(dir, "data", tid, filepath.FromSlash(l.JoinedPath(other))))
		cmd2, out2, _ := spawn("restart", dir, []string{"C05_HOST=" + host, fmt.Sprintf("C05_PORTS=%d", pb), "C05_CRASH=hook 1", "C05_POINT=torrent.startVerifier"}, nil)
		if cmd2 != nil {
			died := make(chan bool, 1)
			go func() {
				hit := false
				for out2.Scan() {
					if strings.HasPrefix(out2.Text(), "CRASHPOINT") {
						hit = true
					}
				}
				died <- hit
			}()
			hit := false
			select {
			case hit = <-died:
			case <-time.After(8 * time.Second):
			}
			killGroup(cmd2)
			cmd2.Wait()
			if hit {
				run.Count("second_deaths_during_recheck", 1)
				disk3, _ := diskTruth(filepath.Join(dir, "data"), l, info)
				claims3, status3, statHave3, ok3, note3 := readClaims(sc, dir, ih, host, pb, log)
				if !ok3 {
					run.Inconclusive(label + ": after second death: " + note3)
					return
				}
				if claims3 != nil {
					if x := excess(claims3, disk3); len(x) > 0 {
						bad("missing-file-trusted:after-death-during-recheck", "file %d was deleted, the restarted client re-created it and died while re-checking (at torrent.startVerifier); after the next restart the client (status %s) announces pieces %v that are not on disk: the stale resume bitfield is trusted because no file is missing any more", other, status3, x)
						return
					}
					if statHave3 > count(disk3) {
						bad("missing-file-trusted:after-death-during-recheck:stats", "file %d deleted, death during the re-check; Stats() then reports %d pieces, %d are on disk", other, statHave3, count(disk3))
						return
					}
					run.Count("restarts_after_second_death_checked", 1)
				}
			}
		}
	}
	run.Distinct(fmt.Sprintf("%s%s|%s|%d|%d|%d", sc.kind, sc.point, sc.hist, sc.at, count(dbBits), count(disk)))
	if sc.k%15 == 1 {
		run.Sample(map[string]any{"case": label, "db_claims": count(dbBits), "disk_pieces": count(disk), "restart_status": status, "restart_claims": count(claims), "died": !finished})
	}
}

func firstLine(s, pfx string) string {
	for _, l := range strings.Split(s, "\n") {
		if strings.HasPrefix(l, pfx) {
			return l
		}
	}
	return pfx
}

func count(b []bool) int {
	n := 0
	for _, x := range b {
		if x {
			n++
		}
	}
	return n
}

func max(a, b int) int {
	if a > b {
		return a
	}
	return b
}

func main() {
	switch vx.ChildRole() {
	case "leech":
		torrent.DisableLogging()
		leech()
		return
	case "restart":
		torrent.DisableLogging()
		restart()
		return
	}
	run = vx.Begin("C05", "fault_enumeration",
		"real process deaths: a leecher child on rain's own file storage (counting wrapper) is killed with SIGKILL at the k-th storage write (before / after half of it / after it; or that write fails with ENOSPC and the process dies 120 ms later), at the k-th hit of a named point inside rain's own code (build tag verif: after the hash check before the write, after the write before its result is reported, after the bit is set, before/after every resume-record update and periodic stats transaction, after a verification's bitfield is installed), at a drawn instant, or at the N-th pwrite64 / fdatasync on the resume database (strace injection), over histories plain / stop+start / verify and 3 layouts (single file, multi-file, multi-file with odd piece length), ResumeWriteInterval 5 ms. After each death: bbolt opens + tx.Check + record readable and equal to the added torrent; database bitfield subset of the pieces whose bytes on disk hash correctly; a second child restarts the client and a reference peer reads its bitfield/have frames: subset of disk truth, also with the first / last / all files deleted before the restart; every data file must be open O_SYNC (/proc/self/fdinfo). distinct = distinct (crash kind, history, point, database pieces, disk pieces)")
	vx.StartCanary()
	layouts := []*gen.Layout{
		{Name: "single", PieceLen: 32768, Seed: 11, Single: true, Files: []gen.FileSpec{{Length: 420000}}},
		{Name: "multi", PieceLen: 32768, Seed: 12, Files: []gen.FileSpec{{Path: []string{"a"}, Length: 100000}, {Path: []string{"d", "b"}, Length: 170001}, {Path: []string{"d", "c"}, Length: 90000}}},
		{Name: "odd", PieceLen: 49152, Seed: 13, Files: []gen.FileSpec{{Path: []string{"x"}, Length: 60000}, {Path: []string{"y"}, Length: 1}, {Path: []string{"z"}, Length: 250000}}},
	}
	var scs []scenario
	k := 0
	add := func(kind string, at int, hist string, l *gen.Layout) {
		scs = append(scs, scenario{k: k, kind: kind, at: at, hist: hist, layout: l})
		k++
	}
	r := run.Rand("c05", 0)
	points := []string{"piecewriter.hashed", "piecewriter.written", "torrent.pieceWriteDone.bitSet", "resumer.update.before", "resumer.update.after", "session.updateStats.before", "session.updateStats.after", "torrent.verificationDone.bitfieldSet"}
	addHook := func(point string, at int, hist string, l *gen.Layout) {
		scs = append(scs, scenario{k: k, kind: "hook", point: ":" + point, at: at, hist: hist, layout: l})
		k++
	}
	if run.Quick() {
		for li, l := range layouts {
			for at := 1; at <= 12; at++ {
				add([]string{"entry", "partial", "exit"}[(at+li)%3], at, "plain", l)
			}
			for i := 0; i < 4; i++ {
				add("timed", 60+r.Intn(500), []string{"plain", "stopstart", "verify"}[i%3], l)
			}
			add("strace-pwrite", 3+r.Intn(40), "plain", l)
			add("strace-sync", 2+r.Intn(20), "plain", l)
			add("exit", 3+r.Intn(10), "stopstart", l)
			add("partial", 3+r.Intn(10), "verify", l)
			add("ioerr", 1+r.Intn(4), "plain", l)
			add("ioerr", 5+r.Intn(8), "plain", l)
			for pi, pt := range points {
				h := []string{"plain", "stopstart", "verify"}[(pi+li)%3]
				if pt == "torrent.verificationDone.bitfieldSet" {
					addHook(pt, 1, "verify", l)
					continue
				}
				addHook(pt, 1+r.Intn(4), h, l)
				addHook(pt, 5+r.Intn(8), h, l)
			}
		}
	} else {
		for _, l := range layouts {
			for _, h := range []string{"plain", "stopstart", "verify"} {
				for at := 1; at <= 24; at++ { // the histories make 13-25 storage writes
					for _, kd := range []string{"entry", "partial", "exit", "ioerr"} {
						add(kd, at, h, l)
					}
				}
				for i := 0; i < 110; i++ {
					add("timed", 30+r.Intn(700), h, l)
				}
				for i := 0; i < 40; i++ {
					add("strace-pwrite", 1+r.Intn(120), h, l)
					add("strace-sync", 1+r.Intn(60), h, l)
				}
				for _, pt := range points {
					n := 14 // the histories write 9-13 pieces; periodic persistence runs more often
					if pt == "torrent.verificationDone.bitfieldSet" {
						n = 2
					} else if strings.HasPrefix(pt, "session.updateStats") {
						n = 30
					}
					for at := 1; at <= n; at++ {
						addHook(pt, at, h, l)
					}
				}
			}
		}
	}
	vx.Parallel(len(scs), 8, func(i int) {
		if run.Enough() {
			return
		}
		runScenario(scs[i])
	})
	sort.Slice(scs, func(i, j int) bool { return scs[i].k < scs[j].k })
	run.Assume("SIGKILL keeps the page cache: loss of written-but-unsynced data (power failure) cannot be produced here; that half of the mechanism is covered only by the O_SYNC flag check on every data file")
	run.Assume("disk truth: a piece counts as on disk when every file it touches exists and its bytes hash to the metainfo value")
	if run.Quick() {
		run.SetExhaustive(false)
	}
	run.Finish(25)
}
