// C15: announce identity and event discipline, observed at independent HTTP and
// UDP trackers (raw requests, receiver-side time stamps) and at a scripted peer
// (peer id of the handshake).
package main

import (
	"bytes"
	"fmt"
	"os"
	"path/filepath"
	"sort"
	"strings"
	"sync"
	"time"

	"github.com/cenkalti/rain/v2/torrent"
	"github.com/cenkalti/rain/v2/verifx/evlog"
	"github.com/cenkalti/rain/v2/verifx/gen"
	"github.com/cenkalti/rain/v2/verifx/memstore"
	"github.com/cenkalti/rain/v2/verifx/refpeer"
	"github.com/cenkalti/rain/v2/verifx/reftracker"
	"github.com/cenkalti/rain/v2/verifx/sess"
	"github.com/cenkalti/rain/v2/verifx/vx"
)

var run *vx.Run

const minAnnounce = 1500 * time.Millisecond

// receiver-side gaps differ from sender-side gaps by the difference of two delivery delays (connection
// set-up, scheduling); a gap is judged only if it is shorter than the bound by more than this slack
const spacingSlack = 300 * time.Millisecond // counters of announces closer than this are not compared

// reply script kinds
var intervals = []*int64{nil, reftracker.I(0), reftracker.I(-1), reftracker.I(-2147483648), reftracker.I(1), reftracker.I(2), reftracker.I(2147483647)}

type trackerScript struct {
	Kind     string // ok | failure | silent | garbage | flaky
	Interval *int64
	MinInt   *int64
}

func (t trackerScript) String() string {
	f := func(p *int64) string {
		if p == nil {
			return "absent"
		}
		return fmt.Sprint(*p)
	}
	return fmt.Sprintf("%s(interval=%s,min=%s)", t.Kind, f(t.Interval), f(t.MinInt))
}

type replied struct {
	a        reftracker.Announce
	accepted bool
	iv       []int64 // positive interval values sent in this reply
}

func scenario(k int) {
	r := run.Rand("c15", k)
	id := fmt.Sprintf("c15-%d", k)
	startComplete := r.Intn(3) == 0
	withSeeder := r.Intn(4) != 0
	scripts := []trackerScript{}
	for i := 0; i < 2; i++ {
		ts := trackerScript{Kind: []string{"ok", "ok", "ok", "failure", "silent", "garbage", "flaky"}[r.Intn(7)], Interval: intervals[r.Intn(len(intervals))]}
		if r.Intn(2) == 0 {
			ts.MinInt = intervals[r.Intn(len(intervals))]
		}
		scripts = append(scripts, ts)
	}
	// class: the UDP tracker answers connect slowly while a seeder delivers the small torrent at once, so the
	// download completes while the 'started' announce is still on its way
	slowConnect := k%6 == 5
	if slowConnect {
		startComplete, withSeeder = false, true
		scripts[1].Kind = "ok"
	}
	// one scenario in five: only the HTTP tracker is in the .torrent, the UDP tracker is added by the user right after
	// Start(), while the files are still being allocated (storage Open slowed down)
	lateTracker := k%5 == 2
	label := fmt.Sprintf("%s http=%s udp=%s startComplete=%v seeder=%v slowconnect=%v lateTracker=%v", id, scripts[0], scripts[1], startComplete, withSeeder, slowConnect, lateTracker)
	run.CaseStart(label)
	defer run.CaseEndDeferred(label)
	dir := filepath.Join(run.Work, fmt.Sprintf("s%d", k))
	os.MkdirAll(dir, 0o755)
	defer os.RemoveAll(dir)
	l := &gen.Layout{Name: fmt.Sprintf("c15_%d", k), PieceLen: 16384, Seed: int64(k) + 3, Files: []gen.FileSpec{{Path: []string{"a"}, Length: 50000 + int64(r.Intn(30000))}}}
	truth := l.Truth()
	info := l.InfoBytes(truth)
	ih := gen.InfoHash(info)
	prov := memstore.NewProvider(filepath.Join(dir, "mem"))
	tid := fmt.Sprintf("t%d", k)
	if startComplete {
		prov.Get(tid).Put(filepath.FromSlash(l.JoinedPath(0)), truth)
	}
	var mu sync.Mutex
	var rep [2][]replied
	mk := func(i int) reftracker.Script {
		return func(a reftracker.Announce) reftracker.Reply {
			ts := scripts[i]
			kind := ts.Kind
			if kind == "flaky" {
				kind = []string{"ok", "failure", "ok", "garbage"}[a.N%4]
			}
			rp := reftracker.Reply{Kind: "ok", Interval: ts.Interval, MinInterval: ts.MinInt}
			acc := true
			switch kind {
			case "failure":
				rp = reftracker.Reply{Kind: "failure", FailureReason: "scripted"}
				acc = false
			case "silent":
				rp = reftracker.Reply{Kind: "silent"}
				acc = false
			case "garbage":
				rp = reftracker.Reply{Kind: "raw", Raw: []byte("this is not bencode")}
				acc = false
			}
			var iv []int64
			if acc {
				if ts.Interval != nil && *ts.Interval > 0 {
					iv = append(iv, *ts.Interval)
				}
				if ts.MinInt != nil && *ts.MinInt > 0 && i == 0 { // UDP replies have no min interval field
					iv = append(iv, *ts.MinInt)
				}
			}
			mu.Lock()
			rep[i] = append(rep[i], replied{a: a, accepted: acc, iv: iv})
			mu.Unlock()
			return rp
		}
	}
	ht, err := reftracker.NewHTTP("http", sess.NextIP(), mk(0))
	if err != nil {
		run.Inconclusive("http tracker: " + err.Error())
		return
	}
	defer ht.Close()
	ut, err := reftracker.NewUDP("udp", sess.NextIP(), mk(1))
	if err != nil {
		run.Inconclusive("udp tracker: " + err.Error())
		return
	}
	defer ut.Close()
	if slowConnect {
		ut.ConnectDelay.Store(int64(600 * time.Millisecond))
	}
	s, _, err := sess.New(sess.Opts{Dir: dir, Storage: prov, Mutate: func(c *torrent.Config) {
		c.TrackerMinAnnounceInterval = minAnnounce
		c.TrackerStopTimeout = 500 * time.Millisecond
		c.TrackerHTTPTimeout = 700 * time.Millisecond
		c.TrackerNumWant = 33
	}})
	if err != nil {
		run.Inconclusive("session: " + err.Error())
		return
	}
	var closeOnce sync.Once
	closeSession := func() { closeOnce.Do(func() { s.Close() }) }
	defer closeSession()
	log := &evlog.Log{}
	var seedAddr string
	var wg sync.WaitGroup
	stopAcc := make(chan struct{})
	var hsSeen [][20]byte
	if withSeeder || true {
		ln, err := refpeer.Listen("seed", sess.NextIP(), log)
		if err != nil {
			run.Inconclusive("listen: " + err.Error())
			return
		}
		seedAddr = ln.Addr().String()
		ct := sess.ContentOf(l, truth)
		var pid [20]byte
		copy(pid[:], fmt.Sprintf("-RF0015-%012d", k))
		wg.Add(1)
		go func() {
			defer wg.Done()
			for {
				select {
				case <-stopAcc:
					return
				default:
				}
				c, err := ln.Accept(refpeer.HSOpts{InfoHash: ih, PeerID: pid, Fast: true, Ext: true, Crypto: "auto", Seed: int64(k)}, 300*time.Millisecond)
				if err != nil {
					continue
				}
				mu.Lock()
				hsSeen = append(hsSeen, c.Remote.PeerID)
				mu.Unlock()
				wg.Add(1)
				go func() {
					defer wg.Done()
					have := []bool(nil)
					if !withSeeder { // a peer without data: only there to see the handshake
						have = make([]bool, ct.NumPieces)
					}
					refpeer.RunSeeder(c, refpeer.SeederCfg{Content: ct, Have: have, Announce: "bitfield", Unchoke: "on-interested"}, &refpeer.SeederState{})
					c.Close()
				}()
			}
		}()
		defer func() { closeSession(); close(stopAcc); ln.Close(); wg.Wait() }()
	}
	tb := gen.TorrentBytes(info, [][]string{{ht.URL}, {ut.URL}}, nil)
	if lateTracker {
		tb = gen.TorrentBytes(info, [][]string{{ht.URL}}, nil)
		prov.Hooks.Delay = func(kind, name string, off int64) time.Duration {
			if kind == "open" {
				return 120 * time.Millisecond
			}
			return 0
		}
		run.Count("late_tracker_scenarios", 1)
	}
	t, err := s.AddTorrent(bytes.NewReader(tb), &torrent.AddTorrentOptions{ID: tid, Stopped: true})
	if err != nil {
		run.Inconclusive("add: " + err.Error())
		return
	}
	run.Eval(1)
	type runWin struct {
		start, stopCall, end time.Time
		completedDuring      bool
		wasCompleteAtStart   bool
	}
	var runs []runWin
	nruns := 1 + r.Intn(2)
	var port int
	for ri := 0; ri < nruns; ri++ {
		st0 := t.Stats()
		w := runWin{start: time.Now(), wasCompleteAtStart: startComplete || (st0.Pieces.Total > 0 && st0.Pieces.Have == st0.Pieces.Total)}
		t.Start()
		if lateTracker && ri == 0 {
			t.AddTracker(ut.URL)
		}
		sess.WaitFor(5*time.Second, func() bool { s := t.Stats().Status; return s == torrent.Downloading || s == torrent.Seeding })
		port = t.Port()
		t.AddPeer(seedAddr)
		// let it run: a few manual announces (need more peers) in bursts
		dur := time.Duration(2600+r.Intn(2000)) * time.Millisecond
		end := time.Now().Add(dur)
		for time.Now().Before(end) {
			if r.Intn(3) == 0 {
				for b := 0; b < 1+r.Intn(4); b++ {
					t.Announce()
				}
			}
			time.Sleep(time.Duration(30+r.Intn(200)) * time.Millisecond)
		}
		stN := t.Stats()
		// "complete during the run" judged from the client's own status at the start and the end of the run
		w.completedDuring = !w.wasCompleteAtStart && stN.Status == torrent.Seeding
		w.stopCall = time.Now()
		t.Stop()
		sess.WaitStatus(t, 10*time.Second, torrent.Stopped)
		// the download may finish between the sample above and the moment the stop is processed (seen at
		// VERIF_SEED=2 on a loaded machine: 'completed' and 'stopped' in the same millisecond): pieces cannot be gained
		// after the stop, so holding every piece now while not at the start means it completed during this run
		if stS := t.Stats(); !w.wasCompleteAtStart && stS.Pieces.Total > 0 && stS.Pieces.Have == stS.Pieces.Total {
			w.completedDuring = true
		}
		time.Sleep(50 * time.Millisecond)
		w.end = time.Now()
		runs = append(runs, w)
	}
	final := t.Stats()
	mu.Lock()
	defer mu.Unlock()
	var pid [20]byte
	havePID := len(hsSeen) > 0
	if havePID {
		pid = hsSeen[0]
		for _, p := range hsSeen {
			if p != pid {
				run.Violation("peer-id-changes-between-connections", fmt.Sprintf("%s: the client presented peer ids %x and %x to peers of one torrent", label, pid, p), nil)
				return
			}
		}
	}
	viol := func(sig, f string, a ...any) {
		var lines []string
		for i := 0; i < 2; i++ {
			for _, rp := range rep[i] {
				lines = append(lines, fmt.Sprintf("%s +%dms event=%q up=%d down=%d left=%d port=%d accepted=%v", rp.a.Proto, rp.a.At.Sub(runs[0].start).Milliseconds(), rp.a.Event, rp.a.Uploaded, rp.a.Downloaded, rp.a.Left, rp.a.Port, rp.accepted))
			}
		}
		if len(lines) > 60 {
			lines = lines[:60]
		}
		run.Violation(sig, label+": "+fmt.Sprintf(f, a...), map[string]any{"scenario": label, "announces": lines})
	}
	total := 0
	for i := 0; i < 2; i++ {
		proto := []string{"http", "udp"}[i]
		as := rep[i]
		sort.Slice(as, func(a, b int) bool { return as[a].a.Seq < as[b].a.Seq })
		total += len(as)
		var lastUp, lastDown int64 = -1, -1
		var lastAt time.Time
		for _, rp := range as {
			a := rp.a
			if a.InfoHash != ih {
				viol("announce-info-hash:"+proto, "announce carries info-hash %x, torrent is %x", a.InfoHash, ih)
				return
			}
			if havePID && (a.PeerID != pid || a.PeerIDLen != 20) {
				viol("announce-peer-id:"+proto, "announce carries peer id %x (%d bytes), the peer handshake carried %x", a.PeerID, a.PeerIDLen, pid)
				return
			}
			if a.Port != port {
				viol("announce-port:"+proto, "announce carries port %d, the torrent listens on %d", a.Port, port)
				return
			}
			// two announces may be in flight at once (a 'completed' replaces a running announce) and
			// overtake each other: order is judged only for announces that arrived more than 300 ms apart
			if (a.Uploaded < lastUp || a.Downloaded < lastDown) && a.At.Sub(lastAt) > 300*time.Millisecond {
				viol("announce-counters-not-monotone:"+proto, "uploaded/downloaded went from %d/%d to %d/%d", lastUp, lastDown, a.Uploaded, a.Downloaded)
				return
			}
			if a.Uploaded >= lastUp && a.Downloaded >= lastDown {
				lastUp, lastDown, lastAt = a.Uploaded, a.Downloaded, a.At
			}
			if a.Uploaded > final.Bytes.Uploaded || a.Downloaded > final.Bytes.Downloaded {
				viol("announce-counters-exceed-torrent:"+proto, "announce says uploaded=%d downloaded=%d, the torrent's counters at the end are %d/%d", a.Uploaded, a.Downloaded, final.Bytes.Uploaded, final.Bytes.Downloaded)
				return
			}
			if a.NumWant != 33 && a.Event != "stopped" && a.Event != "completed" {
				// numwant is configuration, not identity: only recorded
				run.Count("numwant_differs", 1)
			}
		}
		// per run: event automaton and spacing
		for ri, w := range runs {
			var in []replied
			for _, rp := range as {
				if !rp.a.At.Before(w.start) && rp.a.At.Before(w.end) {
					in = append(in, rp)
				}
			}
			if len(in) == 0 {
				continue
			}
			if in[0].a.Event != "started" {
				viol("first-announce-not-started:"+proto, "run %d: first announce to the %s tracker has event %q", ri, proto, in[0].a.Event)
				return
			}
			nCompleted, accepted := 0, false
			sawOther, startedAccepted := false, 0
			var lastPlain time.Time
			var bound time.Duration
			for j, rp := range in {
				switch rp.a.Event {
				case "started":
					// Repeating 'started' until the tracker has accepted one is what BEP 3 asks for, and the
					// tracker cannot know whether its reply arrived (a reply lost to a client-side timeout is
					// followed by another 'started' after the back-off). It is a defect once the client has
					// moved on to another kind of announce, or when accepted 'started' announces keep coming.
					if j != 0 && sawOther {
						viol("started-repeated:"+proto, "run %d: a 'started' announce (position %d) after the client had already sent a later kind of announce to this tracker", ri, j)
						return
					}
					if rp.accepted {
						startedAccepted++
					}
					if startedAccepted >= 3 {
						viol("started-repeated:"+proto, "run %d: %d 'started' announces answered successfully in one run", ri, startedAccepted)
						return
					}
					lastPlain = time.Time{}
				case "completed":
					sawOther = true
					nCompleted++
					if nCompleted > 1 {
						viol("completed-twice:"+proto, "run %d: 'completed' sent %d times", ri, nCompleted)
						return
					}
					if !w.completedDuring {
						viol("completed-without-completion:"+proto, "run %d: 'completed' sent although the download did not go from incomplete to complete during this run (complete at start: %v)", ri, w.wasCompleteAtStart)
						return
					}
					lastPlain = time.Time{}
				case "stopped":
					if !accepted {
						viol("stopped-to-tracker-that-never-accepted:"+proto, "run %d: 'stopped' sent to the %s tracker which accepted no announce in this run", ri, proto)
						return
					}
					if rp.a.At.Before(w.stopCall) {
						viol("stopped-before-stop:"+proto, "run %d: 'stopped' announce before Stop() was called", ri)
						return
					}
					lastPlain = time.Time{}
				case "":
					sawOther = true
					if !lastPlain.IsZero() {
						gap := rp.a.At.Sub(lastPlain)
						if gap < bound/2 && vx.CanaryWorstSince(w.start) < 100*time.Millisecond {
							viol("announce-spacing:"+proto, "run %d: two consecutive event-less announces %s apart; bound %s (smaller of the client's minimum %s and the tracker's positive interval values in its last reply)", ri, gap, bound, minAnnounce)
							return
						}
						run.Count("spacing_gaps_checked", 1)
					}
					lastPlain = rp.a.At
				default:
					viol("unknown-event:"+proto, "event %q", rp.a.Event)
					return
				}
				if rp.accepted {
					accepted = true
				}
				// the bound that applies to the NEXT announce comes from this reply
				bound = minAnnounce
				for _, v := range rp.iv {
					if d := time.Duration(v) * time.Second; d < bound {
						bound = d
					}
				}
				if rp.a.Event != "" && rp.a.Event != "started" {
					continue
				}
				if rp.a.Event == "started" {
					lastPlain = rp.a.At // a started announce also starts the spacing clock for the first periodic one
				}
			}
			if w.completedDuring && nCompleted == 0 && accepted {
				// completion may have happened a moment before Stop: the completed event can be cut off; only counted
				run.Count("completed_event_not_seen", 1)
			}
		}
	}
	if total < 2 {
		run.Inconclusive(label + ": fewer than two announces observed")
		return
	}
	run.Count("announces_checked", int64(total))
	run.Count("runs", int64(len(runs)))
	run.Distinct(vx.Hash(scripts[0].String(), scripts[1].String(), startComplete, withSeeder, nruns))
	if k%15 == 1 {
		var ev []string
		for i := 0; i < 2; i++ {
			for _, rp := range rep[i] {
				ev = append(ev, rp.a.Proto+":"+rp.a.Event)
			}
		}
		if len(ev) > 30 {
			ev = ev[:30]
		}
		run.Sample(map[string]any{"scenario": label, "events": strings.Join(ev, " ")})
	}
}

func main() {
	run = vx.Begin("C15", "exploration",
		"sessions with one HTTP and one UDP reference tracker (separate tiers) whose replies are scripted per scenario: ok / failure / no answer / garbage / flaky with interval and min interval drawn from {absent,0,-1,-2^31,1,2,2^31-1}; torrents starting empty or complete, with or without a data source, 1-2 start/stop runs with bursts of manual announces. Every announce is checked for info-hash, the 20-byte peer id seen in the peer handshake, listening port, monotone and bounded counters; per tracker and run the event automaton (started first, completed at most once and only on completion during the run, stopped only after an accepted announce) and the receiver-side spacing lower bound. distinct = distinct (reply scripts, start state, runs)")
	vx.StartCanary()
	if vx.ChildRole() == "scen" {
		lo, hi := vx.ChildRange()
		var wg sync.WaitGroup
		sem := make(chan struct{}, 3)
		for k := lo; k < hi; k++ {
			wg.Add(1)
			sem <- struct{}{}
			go func(k int) { defer wg.Done(); defer func() { <-sem }(); scenario(k) }(k)
		}
		wg.Wait()
		run.Finish(0)
	}
	run.RunChildren("scen", run.N(96, 3000), 16, "c15-", 40*time.Second, func(res vx.ChildResult, k int, logp string) {
		run.Inconclusive(fmt.Sprintf("scenario child crashed (%s at %s, log %s): crashes belong to C04/C08", res.PanicText, res.RainFrame, logp))
	})
	run.Assume("spacing uses receiver time stamps and the client times its next announce from the moment it triggered the previous one, so a slow delivery of the earlier announce shortens the observed gap: a gap is a violation only below half of the bound (bound = min(client minimum 1.5 s, tracker's positive interval)) while the load canary was on time")
	run.Assume("'left' is recorded, not judged (after closeData the stopped announce reports the full length)")
	run.Finish(30)
}
