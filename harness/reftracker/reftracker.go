// Package reftracker holds independent HTTP (BEP 3/23) and UDP (BEP 15)
// trackers that record every raw request with a receiver-side time stamp and
// answer according to a script.
package reftracker

import (
	"encoding/binary"
	"fmt"
	"net"
	"net/http"
	"net/url"
	"strconv"
	"sync"
	"sync/atomic"
	"time"

	"github.com/cenkalti/rain/v2/verifx/benc"
)

var seq atomic.Int64

// Announce is one announce as received.
type Announce struct {
	Seq        int64
	At         time.Time
	Proto      string
	Tracker    string
	InfoHash   [20]byte
	PeerID     [20]byte
	PeerIDLen  int
	Port       int
	Uploaded   int64
	Downloaded int64
	Left       int64
	Event      string // "", started, completed, stopped
	NumWant    int
	Key        string
	UserAgent  string
	RawQuery   string
	From       string
	N          int // 0-based count of announces at this tracker
}

// Reply scripts an answer.
type Reply struct {
	Kind          string // ok | failure | silent | raw | http-status | wrong-trx-then-ok | dup | short | error-action | endless
	Interval      *int64 // nil: key absent (HTTP) / 0 (UDP)
	MinInterval   *int64
	Peers         []*net.TCPAddr
	PeersDict     bool // HTTP: dictionary model
	PeerStrings   []string
	FailureReason string
	RetryIn       string
	Raw           []byte
	Status        int
	Delay         time.Duration
	ExternalIP    []byte
}

func I(v int64) *int64 { return &v }

type Script func(a Announce) Reply

func compact(peers []*net.TCPAddr) []byte {
	var b []byte
	for _, p := range peers {
		ip := p.IP.To4()
		if ip == nil {
			continue
		}
		b = append(b, ip...)
		b = append(b, byte(p.Port>>8), byte(p.Port))
	}
	return b
}

// HTTPBody renders a reply body.
func HTTPBody(r Reply) []byte {
	switch r.Kind {
	case "raw":
		return r.Raw
	case "failure":
		d := benc.Dict{{K: "failure reason", V: r.FailureReason}}
		if r.RetryIn != "" {
			d = append(d, benc.KV{K: "retry in", V: r.RetryIn})
		}
		return benc.Encode(d.Sorted())
	}
	d := benc.Dict{{K: "complete", V: int64(1)}, {K: "incomplete", V: int64(1)}}
	if r.Interval != nil {
		d = append(d, benc.KV{K: "interval", V: *r.Interval})
	}
	if r.MinInterval != nil {
		d = append(d, benc.KV{K: "min interval", V: *r.MinInterval})
	}
	if r.PeersDict {
		var l benc.List
		for _, p := range r.Peers {
			l = append(l, benc.Dict{{K: "ip", V: p.IP.String()}, {K: "port", V: int64(p.Port)}})
		}
		for _, s := range r.PeerStrings {
			l = append(l, benc.Dict{{K: "ip", V: s}, {K: "port", V: int64(6881)}})
		}
		d = append(d, benc.KV{K: "peers", V: l})
	} else {
		d = append(d, benc.KV{K: "peers", V: compact(r.Peers)})
	}
	if r.ExternalIP != nil {
		d = append(d, benc.KV{K: "external ip", V: r.ExternalIP})
	}
	return benc.Encode(d.Sorted())
}

// ---------------- HTTP ----------------

type HTTP struct {
	Name   string
	URL    string
	ln     net.Listener
	srv    *http.Server
	mu     sync.Mutex
	log    []Announce
	script Script
	// endless-body accounting
	EndlessWritten atomic.Int64
	Conns          atomic.Int64
}

func okScript(a Announce) Reply { return Reply{Kind: "ok", Interval: I(1800)} }

// NewHTTP listens on ip:0.
func NewHTTP(name, ip string, script Script) (*HTTP, error) {
	ln, err := net.Listen("tcp4", net.JoinHostPort(ip, "0"))
	if err != nil {
		return nil, err
	}
	if script == nil {
		script = okScript
	}
	t := &HTTP{Name: name, ln: ln, script: script}
	t.URL = "http://" + ln.Addr().String() + "/announce"
	t.srv = &http.Server{Handler: http.HandlerFunc(t.serve), ConnState: func(c net.Conn, s http.ConnState) {
		if s == http.StateNew {
			t.Conns.Add(1)
		}
	}}
	go t.srv.Serve(ln)
	return t, nil
}

func (t *HTTP) SetScript(s Script) { t.mu.Lock(); t.script = s; t.mu.Unlock() }
func (t *HTTP) Addr() *net.TCPAddr { return t.ln.Addr().(*net.TCPAddr) }
func (t *HTTP) Close()             { t.srv.Close() }

func (t *HTTP) Log() []Announce {
	t.mu.Lock()
	defer t.mu.Unlock()
	return append([]Announce(nil), t.log...)
}

func (t *HTTP) serve(w http.ResponseWriter, r *http.Request) {
	now := time.Now()
	a := Announce{Seq: seq.Add(1), At: now, Proto: "http", Tracker: t.Name, RawQuery: r.URL.RawQuery, UserAgent: r.Header.Get("User-Agent"), From: r.RemoteAddr}
	q, _ := url.ParseQuery(r.URL.RawQuery)
	ih := q.Get("info_hash")
	copy(a.InfoHash[:], ih)
	pid := q.Get("peer_id")
	a.PeerIDLen = len(pid)
	copy(a.PeerID[:], pid)
	a.Port, _ = strconv.Atoi(q.Get("port"))
	a.Uploaded, _ = strconv.ParseInt(q.Get("uploaded"), 10, 64)
	a.Downloaded, _ = strconv.ParseInt(q.Get("downloaded"), 10, 64)
	a.Left, _ = strconv.ParseInt(q.Get("left"), 10, 64)
	a.Event = q.Get("event")
	a.NumWant, _ = strconv.Atoi(q.Get("numwant"))
	a.Key = q.Get("key")
	t.mu.Lock()
	a.N = len(t.log)
	t.log = append(t.log, a)
	sc := t.script
	t.mu.Unlock()
	rep := sc(a)
	if rep.Delay > 0 {
		select {
		case <-time.After(rep.Delay):
		case <-r.Context().Done():
			return
		}
	}
	switch rep.Kind {
	case "silent":
		<-r.Context().Done()
		return
	case "http-status":
		w.Header().Set("Content-Type", "text/plain")
		w.WriteHeader(rep.Status)
		w.Write(rep.Raw)
		return
	case "endless":
		w.WriteHeader(200)
		chunk := make([]byte, 64<<10)
		for i := range chunk {
			chunk[i] = 'x'
		}
		copy(chunk, "d8:intervali1800e5:peers")
		fl, _ := w.(http.Flusher)
		for {
			n, err := w.Write(chunk)
			t.EndlessWritten.Add(int64(n))
			if err != nil {
				return
			}
			if fl != nil {
				fl.Flush()
			}
			select {
			case <-r.Context().Done():
				return
			default:
			}
			if t.EndlessWritten.Load() > 1<<30 {
				return
			}
		}
	case "huge-content-length":
		w.Header().Set("Content-Length", "999999999")
		w.WriteHeader(200)
		w.Write([]byte("d8:intervali1800e"))
		return
	}
	w.Write(HTTPBody(rep))
}

// ---------------- UDP ----------------

type UDPPacket struct {
	Seq  int64
	At   time.Time
	From string
	Kind string // connect | announce | other
	Len  int
}

type UDP struct {
	Name    string
	URL     string
	conn    *net.UDPConn
	mu      sync.Mutex
	log     []Announce
	packets []UDPPacket
	script  Script
	// AnswerConnect false => connect requests are logged and ignored
	AnswerConnect atomic.Bool
	// ConnectDelay (nanoseconds) postpones the answer to connect requests
	ConnectDelay atomic.Int64
	connIDs       map[uint64]bool
	nextConn      uint64
}

func NewUDP(name, ip string, script Script) (*UDP, error) {
	c, err := net.ListenUDP("udp4", &net.UDPAddr{IP: net.ParseIP(ip)})
	if err != nil {
		return nil, err
	}
	if script == nil {
		script = okScript
	}
	t := &UDP{Name: name, conn: c, script: script, connIDs: map[uint64]bool{}, nextConn: 0x1000}
	t.AnswerConnect.Store(true)
	t.URL = "udp://" + c.LocalAddr().String() + "/announce"
	go t.loop()
	return t, nil
}

func (t *UDP) SetScript(s Script) { t.mu.Lock(); t.script = s; t.mu.Unlock() }
func (t *UDP) Close()             { t.conn.Close() }
func (t *UDP) Addr() *net.UDPAddr { return t.conn.LocalAddr().(*net.UDPAddr) }
func (t *UDP) Log() []Announce {
	t.mu.Lock()
	defer t.mu.Unlock()
	return append([]Announce(nil), t.log...)
}
func (t *UDP) Packets() []UDPPacket {
	t.mu.Lock()
	defer t.mu.Unlock()
	return append([]UDPPacket(nil), t.packets...)
}

var udpEvents = []string{"", "completed", "started", "stopped"}

func (t *UDP) loop() {
	buf := make([]byte, 4096)
	for {
		n, from, err := t.conn.ReadFromUDP(buf)
		if err != nil {
			return
		}
		p := append([]byte(nil), buf[:n]...)
		now := time.Now()
		pk := UDPPacket{Seq: seq.Add(1), At: now, From: from.String(), Len: n, Kind: "other"}
		if n >= 16 {
			action := binary.BigEndian.Uint32(p[8:12])
			trx := p[12:16]
			cid := binary.BigEndian.Uint64(p[:8])
			if action == 0 && cid == 0x41727101980 {
				pk.Kind = "connect"
				t.mu.Lock()
				t.packets = append(t.packets, pk)
				t.nextConn++
				id := t.nextConn
				t.connIDs[id] = true
				t.mu.Unlock()
				if t.AnswerConnect.Load() {
					out := make([]byte, 16)
					copy(out[4:8], trx)
					binary.BigEndian.PutUint64(out[8:], id)
					if d := time.Duration(t.ConnectDelay.Load()); d > 0 {
						go func() { time.Sleep(d); t.conn.WriteToUDP(out, from) }()
					} else {
						t.conn.WriteToUDP(out, from)
					}
				}
				continue
			}
			if action == 1 && n >= 98 {
				pk.Kind = "announce"
				a := Announce{Seq: pk.Seq, At: now, Proto: "udp", Tracker: t.Name, From: from.String(), PeerIDLen: 20}
				copy(a.InfoHash[:], p[16:36])
				copy(a.PeerID[:], p[36:56])
				a.Downloaded = int64(binary.BigEndian.Uint64(p[56:64]))
				a.Left = int64(binary.BigEndian.Uint64(p[64:72]))
				a.Uploaded = int64(binary.BigEndian.Uint64(p[72:80]))
				ev := binary.BigEndian.Uint32(p[80:84])
				if int(ev) < len(udpEvents) {
					a.Event = udpEvents[ev]
				} else {
					a.Event = fmt.Sprintf("event%d", ev)
				}
				a.Key = fmt.Sprintf("%08x", binary.BigEndian.Uint32(p[88:92]))
				a.NumWant = int(int32(binary.BigEndian.Uint32(p[92:96])))
				a.Port = int(binary.BigEndian.Uint16(p[96:98]))
				t.mu.Lock()
				known := t.connIDs[cid]
				a.N = len(t.log)
				t.log = append(t.log, a)
				t.packets = append(t.packets, pk)
				sc := t.script
				t.mu.Unlock()
				_ = known
				rep := sc(a)
				go t.answer(rep, trx, from)
				continue
			}
		}
		t.mu.Lock()
		t.packets = append(t.packets, pk)
		t.mu.Unlock()
	}
}

func (t *UDP) okPacket(rep Reply, trx []byte) []byte {
	out := make([]byte, 20)
	binary.BigEndian.PutUint32(out[0:4], 1)
	copy(out[4:8], trx)
	if rep.Interval != nil {
		binary.BigEndian.PutUint32(out[8:12], uint32(int32(*rep.Interval)))
	}
	binary.BigEndian.PutUint32(out[12:16], 1)
	binary.BigEndian.PutUint32(out[16:20], 1)
	return append(out, compact(rep.Peers)...)
}

func (t *UDP) answer(rep Reply, trx []byte, from *net.UDPAddr) {
	if rep.Delay > 0 {
		time.Sleep(rep.Delay)
	}
	switch rep.Kind {
	case "silent":
		return
	case "raw":
		t.conn.WriteToUDP(rep.Raw, from)
	case "short":
		p := t.okPacket(rep, trx)
		t.conn.WriteToUDP(p[:8+len(rep.Raw)%12], from)
	case "failure", "error-action":
		out := make([]byte, 8)
		binary.BigEndian.PutUint32(out[0:4], 3)
		copy(out[4:8], trx)
		if rep.Kind == "failure" {
			d := benc.Dict{{K: "failure reason", V: rep.FailureReason}}
			if rep.RetryIn != "" {
				d = append(d, benc.KV{K: "retry in", V: rep.RetryIn})
			}
			out = append(out, benc.Encode(d.Sorted())...)
		} else {
			out = append(out, rep.Raw...)
		}
		t.conn.WriteToUDP(out, from)
	case "wrong-trx-then-ok":
		// a datagram for a foreign transaction carrying decoy peers, then the real one
		bad := append([]byte(nil), trx...)
		bad[0] ^= 0xff
		bad[3] ^= 0x55
		decoy := Reply{Kind: "ok", Interval: rep.Interval, Peers: []*net.TCPAddr{{IP: net.IPv4(10, 66, 66, 66), Port: 666}}}
		t.conn.WriteToUDP(t.okPacket(decoy, bad), from)
		time.Sleep(30 * time.Millisecond)
		t.conn.WriteToUDP(t.okPacket(rep, trx), from)
	case "dup":
		p := t.okPacket(rep, trx)
		t.conn.WriteToUDP(p, from)
		t.conn.WriteToUDP(p, from)
		t.conn.WriteToUDP(p, from)
	default:
		t.conn.WriteToUDP(t.okPacket(rep, trx), from)
	}
}
