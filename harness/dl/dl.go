// Package dl is the download-scenario engine shared by the session-level checks
// (C01, C10, parts of C12/C17): one leeching rain session on recording storage,
// scripted seeders / hostile peers / web seeds on their own loopback addresses.
package dl

import (
	"bytes"
	"encoding/hex"
	"fmt"
	"math/rand"
	"path/filepath"
	"strings"
	"sync"
	"time"

	"github.com/cenkalti/rain/v2/torrent"
	"github.com/cenkalti/rain/v2/verifx/evlog"
	"github.com/cenkalti/rain/v2/verifx/gen"
	"github.com/cenkalti/rain/v2/verifx/memstore"
	"github.com/cenkalti/rain/v2/verifx/refpeer"
	"github.com/cenkalti/rain/v2/verifx/refweb"
	"github.com/cenkalti/rain/v2/verifx/refwire"
	"github.com/cenkalti/rain/v2/verifx/sess"
	"go.etcd.io/bbolt"
)

type PeerSpec struct {
	// honest | corrupt-one | corrupt-all | choker | staller | quitter | dropper | dup | wrong-index |
	// wrong-begin | short | long | unrequested | rejector | partial
	Kind     string
	Fast     bool
	Ext      bool
	Crypto   string // listener side: auto | plain-only | auto-plain | mse-only
	Announce string // bitfield | haveall | haves
	Param    int
	ReqQ     int // advertised request queue (reqq); 0 = drawn by the seeder config
}

type WebSpec struct {
	Kind string // honest | corrupt | short | 500 | flaky | slow
}

type Cmd struct {
	AfterMs int
	Op      string // stop | start | announce
}

type Spec struct {
	K          int
	Seed       int64
	Layout     *gen.Layout
	Sequential bool
	Magnet     bool
	Enc        string // default | disable-out | force-out
	Peers      []PeerSpec
	Webs       []WebSpec
	WriteDelay int // max ms of delay injected before storage writes
	EndgameDup int
	Commands   []Cmd
	MaxWait    time.Duration
	// BanProbe: Peers[0] is the only source until the client drops it (after it delivered a corrupt
	// piece); then the honest Peers[1] is added, while the address of Peers[0] is re-offered every 20 ms.
	BanProbe bool
	// NoQuiesce: do not wait for quiescence when the download did not complete in MaxWait.
	NoQuiesce bool
	// DeleteRestart: after completion the torrent is stopped, its first data file is deleted from the
	// storage, and it is started again with the same sources (claims keep being recorded)
	DeleteRestart bool
}

func (s *Spec) HonestFull() bool {
	for _, p := range s.Peers {
		if p.Kind == "honest" && s.peerReachable(p) {
			return true
		}
	}
	for _, w := range s.Webs {
		if (w.Kind == "honest" || w.Kind == "honest-slow") && !s.Magnet {
			return true
		}
	}
	return false
}

// peerReachable: can this leecher policy and this listener policy agree on a connection at all?
func (s *Spec) peerReachable(p PeerSpec) bool {
	switch s.Enc {
	case "force-out":
		return p.Crypto != "plain-only" && p.Crypto != "auto-plain"
	case "disable-out":
		return p.Crypto != "mse-only"
	}
	return true
}

func (s *Spec) Describe() string {
	var ps, ws []string
	for _, p := range s.Peers {
		ps = append(ps, fmt.Sprintf("%s/%s/%s/fast=%v/p%d/q%d", p.Kind, p.Crypto, p.Announce, p.Fast, p.Param%4, p.ReqQ))
	}
	for _, w := range s.Webs {
		ws = append(ws, w.Kind)
	}
	return fmt.Sprintf("layout{%s} seq=%v magnet=%v enc=%s peers=%v webs=%v wdelay=%dms dup=%d cmds=%v", s.Layout, s.Sequential, s.Magnet, s.Enc, ps, ws, s.WriteDelay, s.EndgameDup, s.Commands)
}

type SeederRun struct {
	Spec   PeerSpec
	IP     string
	Addr   string
	States []*refpeer.SeederState
	Conns  []*refpeer.Conn
	L      *refpeer.Listener
}

type Result struct {
	Spec        *Spec
	Truth       []byte
	Info        []byte
	InfoHash    [20]byte
	AddErr      error
	Completed   bool
	CompletedAt time.Duration
	FilesBad    []string
	Quiet       bool // reached quiescence without completing
	Final       torrent.Stats
	Events      []evlog.Event
	Storage     []memstore.Event
	Seeders     []*SeederRun
	Webs        []*refweb.Server
	PeerID      [20]byte
	StoreNames  []string
	HandlesOpen int
	Samples     []torrent.Stats
	CompleteSeq int64 // evlog sequence number drawn right after completion was observed
	Notes       []string
	// HonestAtEnd describes every honest scripted source right before the session was closed.
	HonestAtEnd []string
	// BanSeq: sequence number drawn when the first connection of the probed peer ended (0 = never).
	BanSeq int64
	// ResumeBitfield is the bitfield stored in the resume database after the session was closed.
	ResumeBitfield []byte
	ResumeErr      string
	// LateRejects: rejects the honest scripted peers sent after an unchoke frame (see refpeer.SeederCfg.LateReject)
	LateRejects int
}

// GenSpec draws a scenario. mode "c10": at least one reachable honest full source.
func GenSpec(r *rand.Rand, k int, mode string) *Spec {
	s := &Spec{K: k, Seed: r.Int63(), MaxWait: 25 * time.Second}
	for {
		s.Layout = gen.RandomLayout(r, 5, 360_000)
		if s.Layout.NumPieces() <= 40 {
			break
		}
	}
	s.Sequential = r.Intn(2) == 0
	s.Magnet = r.Intn(5) == 0
	s.Enc = []string{"default", "default", "disable-out", "force-out"}[r.Intn(4)]
	s.EndgameDup = 20
	if mode == "c01" {
		s.EndgameDup = []int{1, 2, 20}[r.Intn(3)]
	}
	if r.Intn(3) == 0 {
		s.WriteDelay = []int{2, 10, 40}[r.Intn(3)]
	}
	cryptos := []string{"auto", "auto", "plain-only", "auto-plain", "mse-only"}
	ann := []string{"bitfield", "haveall", "haves"}
	hostile := []string{"corrupt-one", "corrupt-all", "choker", "staller", "quitter", "dropper", "dup", "wrong-index", "wrong-begin", "short", "long", "unrequested", "rejector", "partial"}
	mix := r.Intn(4) // 0 peer only, 1 web only, 2 both, 3 peers + hostile
	nHonest := 0
	if mix != 1 {
		nHonest = 1 + r.Intn(2)
	}
	if s.Magnet && nHonest == 0 {
		nHonest = 1 // metadata must come from a peer
	}
	for i := 0; i < nHonest; i++ {
		// an honest source may still choke/unchoke and reject-then-serve (Param bits 0 and 1)
		s.Peers = append(s.Peers, PeerSpec{Kind: "honest", Fast: r.Intn(2) == 0, Ext: true, Crypto: cryptos[r.Intn(len(cryptos))], Announce: ann[r.Intn(3)], Param: []int{0, 0, 1, 2, 3}[r.Intn(5)] + 4*r.Intn(50)})
	}
	nHostile := 0
	if mix == 3 || r.Intn(2) == 0 {
		nHostile = 1 + r.Intn(3)
	}
	for i := 0; i < nHostile; i++ {
		s.Peers = append(s.Peers, PeerSpec{Kind: hostile[r.Intn(len(hostile))], Fast: r.Intn(2) == 0, Ext: r.Intn(2) == 0, Crypto: cryptos[r.Intn(len(cryptos))], Announce: ann[r.Intn(3)], Param: r.Intn(1000)})
	}
	if (mix == 1 || mix == 2) && !s.Magnet {
		nw := 1 + r.Intn(2)
		for i := 0; i < nw; i++ {
			kind := "honest"
			if i > 0 || (mode == "c01" && r.Intn(3) == 0) {
				kind = []string{"honest", "corrupt", "short", "500", "flaky", "slow"}[r.Intn(6)]
			}
			s.Webs = append(s.Webs, WebSpec{Kind: kind})
		}
	}
	if mode == "c10" && !s.HonestFull() {
		// make the first honest peer reachable under this encryption policy
		if len(s.Peers) > 0 && s.Peers[0].Kind == "honest" {
			s.Peers[0].Crypto = "auto"
		} else if !s.Magnet {
			s.Webs = append(s.Webs, WebSpec{Kind: "honest"})
		} else {
			s.Peers = append([]PeerSpec{{Kind: "honest", Fast: true, Ext: true, Crypto: "auto", Announce: "bitfield"}}, s.Peers...)
		}
	}
	if mode == "c10" && k%8 == 5 {
		// many pieces, a slow honest web seed whose multi-piece ranges get cut by peers that hold only some of
		// the pieces: everything the peers lack can only come from the web seed
		np := 45 + r.Intn(60)
		s.Layout = &gen.Layout{Name: fmt.Sprintf("w%x", r.Uint32()), PieceLen: 16384, Seed: r.Int63(), Single: true, Files: []gen.FileSpec{{Length: int64(np)*16384 - int64(r.Intn(16384))}}}
		s.Magnet = false
		s.Webs = []WebSpec{{Kind: "honest-slow"}}
		s.Peers = nil
		for i := 0; i < 1+r.Intn(2); i++ {
			s.Peers = append(s.Peers, PeerSpec{Kind: "partial", Fast: r.Intn(2) == 0, Ext: true, Crypto: "auto", Announce: ann[r.Intn(2)], Param: r.Intn(1000)})
		}
	}
	if mode == "c10" && k%8 == 3 {
		// single-source class: nobody can rescue a request the client loses; small advertised request queues
		s.Webs = nil
		s.Peers = []PeerSpec{{Kind: "honest", Fast: r.Intn(2) == 0, Ext: true, Crypto: "auto", Announce: ann[r.Intn(3)], Param: r.Intn(4) + 4*r.Intn(50), ReqQ: []int{1, 1, 2, 5}[r.Intn(4)]}}
	}
	if mode == "c01" && !s.Magnet && r.Intn(5) == 0 {
		s.DeleteRestart = true
	}
	if mode == "c01" && r.Intn(6) == 0 {
		s.BanProbe = true
		s.DeleteRestart = false
		s.Magnet = false
		s.Webs = nil
		s.Enc = "default"
		s.Peers = []PeerSpec{
			{Kind: "corrupt-one", Fast: r.Intn(2) == 0, Ext: true, Crypto: "auto", Announce: ann[r.Intn(3)], Param: r.Intn(1000)},
			{Kind: "honest", Fast: r.Intn(2) == 0, Ext: true, Crypto: "auto", Announce: ann[r.Intn(3)]},
		}
		return s
	}
	if mode == "c01" && r.Intn(3) == 0 {
		n := 1 + r.Intn(3)
		t := 0
		for i := 0; i < n; i++ {
			t += 5 + r.Intn(120)
			op := "stop"
			if i%2 == 1 {
				op = "start"
			}
			s.Commands = append(s.Commands, Cmd{AfterMs: t, Op: op})
		}
		if len(s.Commands)%2 == 1 {
			s.Commands = append(s.Commands, Cmd{AfterMs: t + 20 + r.Intn(400), Op: "start"})
		}
	}
	return s
}

func seederCfg(p PeerSpec, ct *refpeer.Content, info []byte, r *rand.Rand) refpeer.SeederCfg {
	cfg := refpeer.SeederCfg{Content: ct, Announce: p.Announce, Unchoke: "on-interested", Metadata: info, ReqQ: []int{0, 1, 5, 250, 2000}[r.Intn(5)]}
	if p.ReqQ != 0 {
		cfg.ReqQ = p.ReqQ
	}
	np := ct.NumPieces
	switch p.Kind {
	case "honest":
		if p.Param&1 != 0 {
			cfg.ChokeEvery = 1 + (p.Param/4)%5
			cfg.ChokePause = time.Duration(3+(p.Param/4)%30) * time.Millisecond
			cfg.LateServe = p.Param&2 != 0
			cfg.LateReject = p.Param&2 != 0 // the same bit: LateServe acts on plain connections, LateReject on fast ones
		}
	case "corrupt-one":
		bad := p.Param % np
		// every block of the piece: the block at offset 0 is never requested when the piece starts with padding
		cfg.Corrupt = func(i, b int) bool { return i == bad }
	case "corrupt-all":
		cfg.Corrupt = func(i, b int) bool { return true }
	case "choker":
		cfg.ChokeEvery = 1 + p.Param%4
		cfg.ChokePause = time.Duration(5+p.Param%40) * time.Millisecond
	case "staller":
		cfg.StallAfter = 1 + p.Param%5
	case "quitter":
		cfg.StopAfter = 1 + p.Param%6
	case "partial":
		cfg.Have = make([]bool, np)
		for i := range cfg.Have {
			cfg.Have[i] = (i+p.Param)%3 != 0
		}
		if cfg.Announce == "haveall" {
			cfg.Announce = "bitfield"
		}
	case "dropper", "dup", "wrong-index", "wrong-begin", "short", "long", "unrequested", "rejector":
		act := map[string]string{"dropper": "drop", "dup": "dup", "wrong-index": "wrong-index", "wrong-begin": "wrong-begin", "short": "short", "long": "long", "unrequested": "unrequested", "rejector": "reject"}[p.Kind]
		every := 2 + p.Param%3
		cfg.OnRequest = func(n int, m refwire.Msg) string {
			if n%every == 1 {
				return act
			}
			return "serve"
		}
	}
	return cfg
}

// Run executes one scenario in this process.
func Run(spec *Spec, dir string) *Result {
	res := &Result{Spec: spec}
	l := spec.Layout
	truth := l.Truth()
	info := l.InfoBytes(truth)
	res.Truth, res.Info = truth, info
	res.InfoHash = gen.InfoHash(info)
	ct := sess.ContentOf(l, truth)
	log := &evlog.Log{}
	var smu sync.Mutex
	var sevents []memstore.Event
	prov := memstore.NewProvider(filepath.Join(dir, "mem"))
	prov.Hooks.OnEvent = func(e memstore.Event) {
		if e.Kind == "read" {
			return
		}
		smu.Lock()
		sevents = append(sevents, e)
		smu.Unlock()
	}
	if spec.WriteDelay > 0 {
		dr := rand.New(rand.NewSource(spec.Seed + 7))
		var dmu sync.Mutex
		prov.Hooks.Delay = func(kind, name string, off int64) time.Duration {
			if kind != "write" {
				return 0
			}
			dmu.Lock()
			defer dmu.Unlock()
			return time.Duration(dr.Intn(spec.WriteDelay+1)) * time.Millisecond
		}
	}
	// web seeds
	var urls []string
	for i, w := range spec.Webs {
		ws, err := refweb.New(fmt.Sprintf("web%d", i), sess.NextIP())
		if err != nil {
			res.Notes = append(res.Notes, "web listen: "+err.Error())
			continue
		}
		for fi, f := range l.Files {
			if f.Pad {
				continue
			}
			off, end := l.FileRange(fi)
			ws.Put(l.JoinedPath(fi), truth[off:end])
		}
		kind := w.Kind
		ws.Behaviour = func(n int, path string, a, b int64) string {
			switch kind {
			case "honest":
				return "ok"
			case "honest-slow":
				return "slow"
			case "flaky":
				if n%3 == 0 {
					return "500"
				}
				return "ok"
			case "corrupt":
				if n%2 == 0 {
					return "corrupt"
				}
				return "ok"
			}
			return kind
		}
		res.Webs = append(res.Webs, ws)
		urls = append(urls, ws.BaseURL())
	}
	defer func() {
		for _, w := range res.Webs {
			w.Close()
		}
	}()
	s, cfg, err := sess.New(sess.Opts{Dir: dir, Storage: prov, Mutate: func(c *torrent.Config) {
		switch spec.Enc {
		case "disable-out":
			c.DisableOutgoingEncryption = true
		case "force-out":
			c.ForceOutgoingEncryption = true
		}
		c.EndgameMaxDuplicateDownloads = spec.EndgameDup
		c.WebseedMaxDownloads = 1 + int(spec.Seed%3)
	}})
	if err != nil {
		res.AddErr = err
		return res
	}
	_ = cfg
	closed := false
	defer func() {
		if !closed {
			s.Close()
		}
	}()
	// scripted peers
	var wg sync.WaitGroup
	stopAccept := make(chan struct{})
	for i, p := range spec.Peers {
		ip := sess.NextIP()
		ln, err := refpeer.Listen(fmt.Sprintf("peer%d:%s", i, p.Kind), ip, log)
		if err != nil {
			res.Notes = append(res.Notes, "peer listen: "+err.Error())
			continue
		}
		sr := &SeederRun{Spec: p, IP: ip, Addr: ln.Addr().String(), L: ln}
		res.Seeders = append(res.Seeders, sr)
		var pid [20]byte
		copy(pid[:], fmt.Sprintf("-RF0001-%03d%09d", i, spec.K%1000000000))
		hs := refpeer.HSOpts{InfoHash: res.InfoHash, PeerID: pid, Fast: p.Fast, Ext: p.Ext || spec.Magnet, Crypto: p.Crypto, Seed: spec.Seed + int64(i)}
		scfg := seederCfg(p, ct, info, rand.New(rand.NewSource(spec.Seed+int64(i)*13)))
		wg.Add(1)
		go func(sr *SeederRun) {
			defer wg.Done()
			for {
				select {
				case <-stopAccept:
					return
				default:
				}
				c, err := ln.Accept(hs, 500*time.Millisecond)
				if err != nil {
					continue
				}
				st := &refpeer.SeederState{}
				smu.Lock()
				sr.States = append(sr.States, st)
				sr.Conns = append(sr.Conns, c)
				smu.Unlock()
				wg.Add(1)
				go func() {
					defer wg.Done()
					refpeer.RunSeeder(c, scfg, st)
				}()
			}
		}(sr)
	}
	// add the torrent
	var t *torrent.Torrent
	opt := &torrent.AddTorrentOptions{Sequential: spec.Sequential}
	if spec.Magnet {
		t, err = s.AddURI("magnet:?xt=urn:btih:"+hex.EncodeToString(res.InfoHash[:])+"&dn=m", opt)
	} else {
		t, err = s.AddTorrent(bytes.NewReader(gen.TorrentBytes(info, nil, urls)), opt)
	}
	if err != nil {
		res.AddErr = err
		close(stopAccept)
		return res
	}
	t0 := time.Now()
	complete := t.NotifyComplete()
	probeStop := make(chan struct{})
	var probeWG sync.WaitGroup
	if spec.BanProbe && len(res.Seeders) == 2 {
		x, h := res.Seeders[0], res.Seeders[1]
		t.AddPeer(x.Addr)
		probeWG.Add(1)
		go func() {
			defer probeWG.Done()
			added := false
			for {
				select {
				case <-probeStop:
					return
				case <-time.After(20 * time.Millisecond):
				}
				if !added {
					smu.Lock()
					ended := false
					for _, st := range x.States {
						st.Mu.Lock()
						ended = ended || st.Closed
						st.Mu.Unlock()
					}
					smu.Unlock()
					if ended {
						res.BanSeq = evlog.Next()
						log.Add("probe", "first-connection-of-corrupt-peer-ended", 0, 0, 0, "", nil)
						t.AddPeer(h.Addr)
						added = true
					}
				}
				t.AddPeer(x.Addr) // keep offering the dropped peer's address
			}
		}()
	} else {
		for _, sr := range res.Seeders {
			t.AddPeer(sr.Addr)
		}
	}
	// commands
	cmdDone := make(chan struct{})
	go func() {
		defer close(cmdDone)
		last := 0
		for _, c := range spec.Commands {
			time.Sleep(time.Duration(c.AfterMs-last) * time.Millisecond)
			last = c.AfterMs
			log.Add("api", "call:"+c.Op, 0, 0, 0, "", nil)
			switch c.Op {
			case "stop":
				t.Stop()
			case "start":
				t.Start()
				for _, sr := range res.Seeders {
					t.AddPeer(sr.Addr)
				}
			case "announce":
				t.Announce()
			}
			log.Add("api", "return:"+c.Op, 0, 0, 0, "", nil)
		}
	}()
	// sampler: Stats() while the scenario runs (each sample is bracketed by log sequence numbers)
	sampleStop := make(chan struct{})
	var sampWG sync.WaitGroup
	sampWG.Add(1)
	go func() {
		defer sampWG.Done()
		for {
			select {
			case <-sampleStop:
				return
			case <-time.After(7 * time.Millisecond):
			}
			st := t.Stats()
			log.Add("api", "stats", int64(st.Pieces.Have), int64(st.Status), st.Bytes.Completed, "", nil)
			if len(res.Samples) < 4000 {
				res.Samples = append(res.Samples, st)
			}
		}
	}()
	select {
	case <-complete:
		res.Completed = true
		res.CompletedAt = time.Since(t0)
		res.CompleteSeq = evlog.Next()
	case <-time.After(spec.MaxWait):
	}
	<-cmdDone
	if !res.Completed {
		// a late completion (commands running) or quiescence
		select {
		case <-complete:
			res.Completed = true
			res.CompletedAt = time.Since(t0)
			res.CompleteSeq = evlog.Next()
		default:
			if spec.NoQuiesce {
				break
			}
			res.Quiet = sess.Quiet(3*time.Second, 20*time.Second, func() string {
				var sb strings.Builder
				sb.WriteString(sess.StatsFingerprint(t))
				for _, sr := range res.Seeders {
					smu.Lock()
					for _, c := range sr.Conns {
						fmt.Fprint(&sb, c.BytesIn.Load(), c.BytesOut.Load())
					}
					smu.Unlock()
				}
				for _, w := range res.Webs {
					fmt.Fprint(&sb, w.Bytes.Load(), len(w.Requests()))
				}
				return sb.String()
			})
			select {
			case <-complete:
				res.Completed = true
				res.Quiet = false
				res.CompleteSeq = evlog.Next()
			default:
			}
		}
	} else {
		time.Sleep(30 * time.Millisecond) // let the last have messages reach the peers
	}
	if spec.DeleteRestart && res.Completed {
		t.Stop()
		if _, ok := sess.WaitStatus(t, 10*time.Second, torrent.Stopped); ok {
			stq := prov.Get(t.ID())
			for fi, f := range l.Files {
				if f.Pad || f.Length == 0 {
					continue
				}
				name := filepath.FromSlash(l.JoinedPath(fi))
				log.Add("api", "delete-window-begin", 0, 0, 0, name, nil)
				stq.Delete(name)
				smu.Lock()
				sevents = append(sevents, memstore.Event{Seq: evlog.Next(), Kind: "delete", Name: name, Exit: true})
				smu.Unlock()
				res.Notes = append(res.Notes, "deleted "+name+" while stopped")
				break
			}
			t.Start()
			for _, sr := range res.Seeders {
				t.AddPeer(sr.Addr)
			}
			// the client cannot know about the deletion before it has looked at the files again
			sess.WaitFor(10*time.Second, func() bool { st := t.Stats().Status; return st == torrent.Downloading || st == torrent.Seeding })
			log.Add("api", "delete-window-end", 0, 0, 0, "", nil)
			sess.WaitFor(8*time.Second, func() bool { return t.Stats().Status == torrent.Seeding })
			time.Sleep(50 * time.Millisecond)
			res.Completed = t.Stats().Status == torrent.Seeding
		}
	}
	close(sampleStop)
	sampWG.Wait()
	close(probeStop)
	probeWG.Wait()
	for _, sr := range res.Seeders {
		if sr.Spec.Kind != "honest" {
			continue
		}
		smu.Lock()
		n := len(sr.States)
		live := 0
		for _, st := range sr.States {
			st.Mu.Lock()
			res.LateRejects += st.LateRejects
			if !st.Closed {
				live++
				res.HonestAtEnd = append(res.HonestAtEnd, fmt.Sprintf("%s connected unchoked=%v interested=%v outstanding=%d served=%d", sr.Addr, st.Unchoked, st.Interested, len(st.Outstanding), st.Served))
			}
			st.Mu.Unlock()
		}
		smu.Unlock()
		if live == 0 {
			res.HonestAtEnd = append(res.HonestAtEnd, fmt.Sprintf("%s not connected (%d connections ended, %d tcp attempts seen)", sr.Addr, n, sr.L.Attempts.Load()))
		}
	}
	res.Final = t.Stats()
	log.Add("api", "final-stats", int64(res.Final.Pieces.Have), int64(res.Final.Status), res.Final.Bytes.Completed, "", nil)
	res.PeerID = peerIDFromLog(log)
	st := prov.Get(t.ID())
	res.StoreNames = st.Names()
	res.FilesBad = sess.CheckFiles(st, l, truth)
	tid := t.ID()
	s.Close()
	closed = true
	res.HandlesOpen = prov.OpenHandles()
	if db, err := bbolt.Open(filepath.Join(dir, "session.db"), 0o600, &bbolt.Options{ReadOnly: true, Timeout: 2 * time.Second}); err != nil {
		res.ResumeErr = err.Error()
	} else {
		db.View(func(tx *bbolt.Tx) error {
			b := tx.Bucket([]byte("torrents"))
			if b == nil {
				res.ResumeErr = "no torrents bucket"
				return nil
			}
			tb := b.Bucket([]byte(tid))
			if tb == nil {
				res.ResumeErr = "no bucket for the torrent"
				return nil
			}
			res.ResumeBitfield = append([]byte(nil), tb.Get([]byte("bitfield"))...)
			return nil
		})
		db.Close()
	}
	close(stopAccept)
	for _, sr := range res.Seeders {
		sr.L.Close()
		smu.Lock()
		for _, c := range sr.Conns {
			c.Close()
		}
		smu.Unlock()
	}
	wg.Wait()
	res.Events = log.Snapshot()
	smu.Lock()
	res.Storage = sevents
	smu.Unlock()
	return res
}

func peerIDFromLog(log *evlog.Log) (id [20]byte) {
	for _, e := range log.Snapshot() {
		if e.Kind == "handshake" && len(e.S) == 20 {
			copy(id[:], e.S)
			return
		}
	}
	return
}
