// C10: with a reachable honest full source the download completes with correct
// files, for generated layouts / modes / encryption settings / source mixes and
// hostile other peers. Scenarios run in child processes.
package main

import (
	"fmt"
	"os"
	"sort"
	"strings"
	"sync"
	"time"

	"github.com/cenkalti/rain/v2/verifx/dl"
	"github.com/cenkalti/rain/v2/verifx/gen"
	"github.com/cenkalti/rain/v2/verifx/vx"
)

var run *vx.Run

func paddingOnlyPiece(l *gen.Layout) bool {
	pl := int64(l.PieceLen)
	np := l.NumPieces()
	nonpad := make([]int64, np)
	var off int64
	for _, f := range l.Files {
		if !f.Pad {
			for p := off; p < off+f.Length; {
				i := p / pl
				end := (i + 1) * pl
				if end > off+f.Length {
					end = off + f.Length
				}
				nonpad[i] += end - p
				p = end
			}
		}
		off += f.Length
	}
	for _, n := range nonpad {
		if n == 0 {
			return true
		}
	}
	return false
}

func scenario(k int) {
	r := run.Rand("c10", k)
	spec := dl.GenSpec(r, k, "c10")
	id := fmt.Sprintf("c10-%d", k)
	run.CaseStart(id + " " + spec.Describe())
	defer run.CaseEndDeferred(id + " " + spec.Describe())
	dir := fmt.Sprintf("%s/s%d", run.Work, k)
	os.MkdirAll(dir, 0o755)
	defer os.RemoveAll(dir)
	t0 := time.Now()
	res := dl.Run(spec, dir)
	run.Eval(1)
	rep := map[string]any{"scenario": k, "spec": spec.Describe(), "final_status": res.Final.Status.String(), "have": res.Final.Pieces.Have, "total": res.Final.Pieces.Total, "notes": res.Notes}
	cls := ""
	if paddingOnlyPiece(spec.Layout) {
		cls = ":padding-only-piece"
	}
	if res.AddErr != nil {
		run.Violation("add-failed", fmt.Sprintf("scenario %d: a valid torrent could not be added: %v (%s)", k, res.AddErr, spec.Describe()), rep)
		return
	}
	if res.Completed {
		if len(res.FilesBad) > 0 {
			run.Violation("complete-with-wrong-files", fmt.Sprintf("scenario %d: completion reported but %v (%s)", k, res.FilesBad, spec.Describe()), rep)
			return
		}
		run.Count("completed", 1)
		run.Max("slowest_completion_ms", res.CompletedAt.Milliseconds())
	} else {
		if !res.Quiet {
			run.Inconclusive(fmt.Sprintf("scenario %d neither completed nor became quiet within the watchdog", k))
			return
		}
		if vx.CanaryWorstSince(t0) > 2*time.Second {
			run.Inconclusive("load canary late during a stuck verdict")
			return
		}
		idle := res.HonestAtEnd
		rep["honest_sources_at_quiescence"] = idle
		var tail []string
		for _, e := range res.Events {
			if e.Kind != "stats" {
				tail = append(tail, fmt.Sprintf("%d %s %s %d %d %d %s", e.Seq, e.Src, e.Kind, e.A, e.B, e.C, e.S))
			}
		}
		if len(tail) > 80 {
			tail = tail[len(tail)-80:]
		}
		rep["event_tail"] = tail
		run.Violation("stuck-incomplete"+cls, fmt.Sprintf("scenario %d: quiescent at %d/%d pieces (status %s) although an honest full source is reachable; honest sources: %v (%s)", k, res.Final.Pieces.Have, res.Final.Pieces.Total, res.Final.Status, idle, spec.Describe()), rep)
		return
	}
	// distinct = spec class + interleaving fingerprint (order of the first 30 key events)
	var fp []string
	for _, e := range res.Events {
		if strings.HasPrefix(e.Kind, "rx:4") || strings.HasPrefix(e.Kind, "tx:7") || e.Kind == "handshake" || strings.HasPrefix(e.Kind, "tx:0") {
			fp = append(fp, e.Src[:5]+e.Kind)
			if len(fp) > 30 {
				break
			}
		}
	}
	kinds := []string{}
	for _, p := range spec.Peers {
		kinds = append(kinds, p.Kind+"/"+p.Crypto)
	}
	sort.Strings(kinds)
	run.Distinct(vx.Hash(spec.Layout.String(), spec.Sequential, spec.Magnet, spec.Enc, kinds, len(spec.Webs), strings.Join(fp, ",")))
	run.Count("pieces_downloaded", int64(res.Final.Pieces.Have))
	if res.LateRejects > 0 {
		run.Count("rejects_after_unchoke", int64(res.LateRejects))
		run.Count("scenarios_with_reject_after_unchoke", 1)
	}
	if spec.Magnet {
		run.Count("magnet_scenarios", 1)
	}
	if len(spec.Webs) > 0 {
		run.Count("webseed_scenarios", 1)
	}
	if paddingOnlyPiece(spec.Layout) {
		run.Count("layouts_with_padding_only_piece", 1)
	}
	if k%40 == 1 {
		run.Sample(map[string]any{"spec": spec.Describe(), "completed_ms": res.CompletedAt.Milliseconds(), "events": len(res.Events), "storage_events": len(res.Storage)})
	}
}

func main() {
	run = vx.Begin("C10", "exploration",
		"PRNG scenarios: layout (1-5 files, padding anywhere, odd piece lengths, 1-40 pieces) x picker mode x encryption policy (leecher default/disable-out/force-out; listeners auto/plain-only/auto-plain/mse-only) x source mix (1-2 honest scripted seeders, web seeds, both) x .torrent/magnet x 0-3 hostile peers (choke, stall, quit, corrupt, drop, duplicate, wrong index/offset/length, reject, partial); always one reachable honest full source. Oracle: NotifyComplete + byte compare of every file in the recording storage; otherwise quiescence-based stuck detection with load canary. distinct = distinct (spec class, order of the first key wire events)")
	vx.StartCanary()
	if vx.ChildRole() == "scen" {
		lo, hi := 0, 0
		fmt.Sscanf(os.Getenv("VX_RANGE"), "%d-%d", &lo, &hi)
		for k := lo; k < hi; k++ {
			if run.Violations() >= 4 {
				break // enough evidence from this child; the rest would only take time
			}
			scenario(k)
		}
		run.Finish(0)
	}
	for k := 0; k < run.N(20000, 600000) && !run.Enough(); k++ {
		if txt, ok := vx.Try(func() { pdCase(k) }); !ok {
			run.Violation("piece-downloader-panics", fmt.Sprintf("pd case %d: %s", k, txt), nil)
		}
	}
	n := run.N(640, 12000)
	children := 16
	per := (n + children - 1) / children
	var wg sync.WaitGroup
	for c := 0; c < children; c++ {
		lo, hi := c*per, (c+1)*per
		if hi > n {
			hi = n
		}
		if lo >= hi {
			continue
		}
		wg.Add(1)
		go func(lo, hi int) {
			defer wg.Done()
			for lo < hi {
				res := run.Spawn("scen", []string{fmt.Sprintf("VX_RANGE=%d-%d", lo, hi)}, time.Duration(hi-lo)*100*time.Second+2*time.Minute)
				if !res.Crashed && !res.TimedOut {
					return
				}
				// which scenario was open?
				var k int
				fmt.Sscanf(res.OpenCase, "c10-%d", &k)
				if res.OpenCase == "" {
					run.Inconclusive("child ended abnormally outside a scenario: " + res.PanicText)
					return
				}
				logp := run.KeepLog(res, fmt.Sprintf("crash-%d.log", k))
				if res.TimedOut && !res.Crashed {
					run.Inconclusive(fmt.Sprintf("scenario %d: child watchdog (log %s)", k, logp))
				} else {
					run.Violation("crash:"+res.RainFrame, fmt.Sprintf("scenario %d: client crashed during a download: %s at %s (log %s); %s", k, res.PanicText, res.RainFrame, logp, res.OpenCase), map[string]any{"case": res.OpenCase, "tail": res.Tail})
				}
				lo = k + 1
			}
		}(lo, hi)
	}
	wg.Wait()
	run.Assume("'always' is explored on finite schedules; web-seed error-then-recover uses a 1 s retry interval instead of the default minute")
	run.Finish(60)
}
