package main

import (
	"fmt"
	"math/rand"

	"github.com/cenkalti/rain/v2/internal/bufferpool"
	"github.com/cenkalti/rain/v2/internal/filesection"
	"github.com/cenkalti/rain/v2/internal/piece"
	"github.com/cenkalti/rain/v2/internal/piecedownloader"
	"github.com/cenkalti/rain/v2/verifx/vx"
)

// Bounded progress of the per-peer piece downloader: after ANY history of
// unchokes, chokes, served, late-served, dropped and rejected requests that an
// honest peer may produce, once the peer unchokes for good and serves every
// request it receives, the piece completes. The torrent's message handlers
// (choke / unchoke / piece / reject) are mirrored literally; the peer side is a
// model of an honest remote with or without the fast extension. A fast peer may
// answer a request it held over a choke with a reject that leaves after its next
// unchoke (BEP 6 sets no deadline); those choices come from a PRNG stream of their own.

type pdPeer struct {
	fast     bool
	inflight [][2]uint32 // requests received and not yet answered or dropped
	sent     int
	log      []string
}

func (p *pdPeer) RequestPiece(index, begin, length uint32) {
	p.inflight = append(p.inflight, [2]uint32{begin, length})
	p.sent++
	p.log = append(p.log, fmt.Sprintf("req(%d,%d)", begin, length))
}
func (p *pdPeer) CancelPiece(index, begin, length uint32) {}
func (p *pdPeer) EnabledFast() bool                       { return p.fast }

func pdCase(k int) {
	r := run.Rand("pd", k)
	nb := 1 + r.Intn(10)
	length := uint32(nb*piece.BlockSize - r.Intn(piece.BlockSize))
	if length == 0 {
		length = 1
	}
	pi := &piece.Piece{Index: uint32(r.Intn(5)), Length: length, Data: filesection.Piece{{Length: int64(length)}}}
	pe := &pdPeer{fast: r.Intn(2) == 0}
	q := []int{1, 1, 2, 3, 5, 50}[r.Intn(6)]
	allowedFast := pe.fast && r.Intn(5) == 0
	pool := bufferpool.New(int(length))
	pd := piecedownloader.New(pi, pe, allowedFast, pool.Get(int(length)))
	lateRejects := 0
	choking := r.Intn(2) == 0 // peer state when the downloader is created (allowed-fast pieces start while choked)
	if !allowedFast {
		choking = false
	}
	run.Eval(1)
	r2 := run.Rand("pd-late-reject", k)
	over := map[uint32]bool{} // requests a fast peer held when it choked and has not answered yet
	// mirrored handlers
	onUnchoke := func() {
		choking = false
		pe.log = append(pe.log, "unchoke")
		if !pd.AllowedFast {
			pd.RequestBlocks(q)
		}
	}
	onPiece := func(b [2]uint32) {
		pe.log = append(pe.log, fmt.Sprintf("piece(%d)", b[0]))
		err := pd.GotBlock(b[0], make([]byte, b[1]))
		if err == piecedownloader.ErrBlockInvalid {
			pe.log = append(pe.log, "INVALID")
		}
		if !pd.Done() && (pd.AllowedFast || !choking) {
			pd.RequestBlocks(q)
		}
	}
	onReject := func(b [2]uint32) {
		pe.log = append(pe.log, fmt.Sprintf("reject(%d)", b[0]))
		pd.Rejected(b[0], b[1])
		if !choking {
			pe.log = append(pe.log, "(unchoked)")
			pd.RequestBlocks(q)
			lateRejects++
		}
	}
	take := func(i int) [2]uint32 {
		b := pe.inflight[i]
		pe.inflight = append(pe.inflight[:i], pe.inflight[i+1:]...)
		return b
	}
	var late [][2]uint32 // blocks already in the peer's send buffer when it choked (no fast extension)
	onChoke := func() {
		choking = true
		pe.log = append(pe.log, "choke")
		if !pd.AllowedFast {
			pd.Choked()
		}
		if !pe.fast {
			// the peer forgets the queued requests; some were already on their way out
			for _, b := range pe.inflight {
				if r.Intn(2) == 0 {
					late = append(late, b)
				}
			}
			pe.inflight = nil
		}
		// a fast peer answers every request it holds: reject (or serve); modelled as later steps
		if pe.fast {
			for _, b := range pe.inflight {
				over[b[0]] = true
			}
		}
	}
	pd.RequestBlocks(q) // startSinglePieceDownloader
	steps := r.Intn(40)
	for i := 0; i < steps && !pd.Done(); i++ {
		switch c := r.Intn(10); {
		case c < 4 && len(pe.inflight) > 0 && (!choking || pd.AllowedFast || pe.fast):
			if choking && pe.fast && !pd.AllowedFast {
				// choked fast peer: reject
				b := take(r.Intn(len(pe.inflight)))
				delete(over, b[0])
				onReject(b)
			} else {
				b := take(r.Intn(len(pe.inflight)))
				held := over[b[0]]
				delete(over, b[0])
				if held && !choking && !pd.AllowedFast && r2.Intn(2) == 0 {
					onReject(b) // the reject of a request held over the choke leaves after the unchoke
				} else {
					onPiece(b)
				}
			}
		case c < 6 && len(late) > 0:
			b := late[0]
			late = late[1:]
			onPiece(b)
		case c < 8:
			if choking {
				onUnchoke()
			} else {
				onChoke()
			}
		}
	}
	// the peer becomes perfectly cooperative: answers what it holds (a choked fast peer rejects), unchokes, serves everything
	pe.log = append(pe.log, "|final")
	for _, b := range late {
		onPiece(b)
	}
	late = nil
	if choking {
		for pe.fast && !pd.AllowedFast && len(pe.inflight) > 0 {
			onReject(take(0))
		}
		onUnchoke()
	}
	for n := 0; n < 200 && !pd.Done() && len(pe.inflight) > 0; n++ {
		onPiece(take(0))
	}
	if !pd.Done() {
		t := pe.log
		if len(t) > 60 {
			t = t[len(t)-60:]
		}
		run.Violation("piece-downloader-stalls", fmt.Sprintf("pd case %d: piece of %d blocks, reqq=%d, fast=%v, allowedFast=%v: after the peer unchoked and served every request it received the piece is not complete and no request is outstanding", k, nb, q, pe.fast, allowedFast), map[string]any{"log": t})
		return
	}
	run.Count("pd_histories", 1)
	if lateRejects > 0 {
		run.Count("pd_histories_with_reject_after_unchoke", 1)
	}
	run.Distinct("pd|" + vx.Hash(pe.log))
}

var _ = rand.Int
