// Package refwire is an independent implementation of the BitTorrent peer wire
// framing (BEP 3, 6, 10, 9, 11), written from the specifications. It is the
// reference the client's emitted bytes are compared with, and the codec of the
// scripted peers.
package refwire

import (
	"encoding/binary"
	"errors"
	"fmt"
	"io"

	"github.com/cenkalti/rain/v2/verifx/benc"
)

// Message ids.
const (
	Choke         = 0
	Unchoke       = 1
	Interested    = 2
	NotInterested = 3
	Have          = 4
	Bitfield      = 5
	Request       = 6
	Piece         = 7
	Cancel        = 8
	Port          = 9
	Suggest       = 13
	HaveAll       = 14
	HaveNone      = 15
	Reject        = 16
	AllowedFast   = 17
	Extended      = 20
)

// Msg is one decoded frame.
type Msg struct {
	KeepAlive bool
	ID        byte
	Index     uint32 // have, request, piece, cancel, reject, allowed-fast, suggest
	Begin     uint32
	Length    uint32 // request/cancel/reject
	Port      uint16
	Data      []byte // bitfield bits, piece block, extended payload (after ext id), unknown body
	ExtID     byte
	Raw       int // frame size on the wire including the 4-byte prefix
}

func (m Msg) String() string {
	if m.KeepAlive {
		return "keepalive"
	}
	switch m.ID {
	case Have, AllowedFast, Suggest:
		return fmt.Sprintf("id%d(#%d)", m.ID, m.Index)
	case Request, Cancel, Reject:
		return fmt.Sprintf("id%d(#%d,%d,%d)", m.ID, m.Index, m.Begin, m.Length)
	case Piece:
		return fmt.Sprintf("piece(#%d,%d,len %d)", m.Index, m.Begin, len(m.Data))
	case Bitfield:
		return fmt.Sprintf("bitfield(%d bytes)", len(m.Data))
	case Extended:
		return fmt.Sprintf("ext(%d,%d bytes)", m.ExtID, len(m.Data))
	case Port:
		return fmt.Sprintf("port(%d)", m.Port)
	}
	return fmt.Sprintf("id%d", m.ID)
}

func u32(v uint32) []byte { b := make([]byte, 4); binary.BigEndian.PutUint32(b, v); return b }

// Encode produces the wire bytes of m as the specifications prescribe.
func Encode(m Msg) []byte {
	if m.KeepAlive {
		return []byte{0, 0, 0, 0}
	}
	var body []byte
	switch m.ID {
	case Choke, Unchoke, Interested, NotInterested, HaveAll, HaveNone:
	case Have, AllowedFast, Suggest:
		body = u32(m.Index)
	case Bitfield:
		body = m.Data
	case Request, Cancel, Reject:
		body = append(append(u32(m.Index), u32(m.Begin)...), u32(m.Length)...)
	case Piece:
		body = append(append(u32(m.Index), u32(m.Begin)...), m.Data...)
	case Port:
		body = []byte{byte(m.Port >> 8), byte(m.Port)}
	case Extended:
		body = append([]byte{m.ExtID}, m.Data...)
	default:
		body = m.Data
	}
	out := make([]byte, 0, 5+len(body))
	out = append(out, u32(uint32(1+len(body)))...)
	out = append(out, m.ID)
	return append(out, body...)
}

var ErrTooLarge = errors.New("refwire: frame larger than limit")
var ErrBadLength = errors.New("refwire: frame length does not fit the message id")

// Read decodes one frame. Strict: fixed-size messages must have their exact length.
func Read(r io.Reader, limit uint32) (Msg, error) {
	var hdr [4]byte
	if _, err := io.ReadFull(r, hdr[:]); err != nil {
		return Msg{}, err
	}
	n := binary.BigEndian.Uint32(hdr[:])
	if n == 0 {
		return Msg{KeepAlive: true, Raw: 4}, nil
	}
	if n > limit {
		return Msg{}, ErrTooLarge
	}
	b := make([]byte, n)
	if _, err := io.ReadFull(r, b); err != nil {
		if err == io.EOF {
			err = io.ErrUnexpectedEOF
		}
		return Msg{}, err
	}
	m := Msg{ID: b[0], Raw: int(n) + 4}
	body := b[1:]
	want := -1
	switch m.ID {
	case Choke, Unchoke, Interested, NotInterested, HaveAll, HaveNone:
		want = 0
	case Have, AllowedFast, Suggest:
		want = 4
	case Request, Cancel, Reject:
		want = 12
	case Port:
		want = 2
	}
	if want >= 0 && len(body) != want {
		return m, ErrBadLength
	}
	switch m.ID {
	case Have, AllowedFast, Suggest:
		m.Index = binary.BigEndian.Uint32(body)
	case Request, Cancel, Reject:
		m.Index = binary.BigEndian.Uint32(body)
		m.Begin = binary.BigEndian.Uint32(body[4:])
		m.Length = binary.BigEndian.Uint32(body[8:])
	case Piece:
		if len(body) < 8 {
			return m, ErrBadLength
		}
		m.Index = binary.BigEndian.Uint32(body)
		m.Begin = binary.BigEndian.Uint32(body[4:])
		m.Data = body[8:]
	case Port:
		m.Port = uint16(body[0])<<8 | uint16(body[1])
	case Extended:
		if len(body) < 1 {
			return m, ErrBadLength
		}
		m.ExtID = body[0]
		m.Data = body[1:]
	default:
		m.Data = body
	}
	return m, nil
}

// Handshake builds the 68-byte handshake.
func Handshake(reserved [8]byte, infoHash, peerID [20]byte) []byte {
	out := make([]byte, 0, 68)
	out = append(out, 19)
	out = append(out, "BitTorrent protocol"...)
	out = append(out, reserved[:]...)
	out = append(out, infoHash[:]...)
	return append(out, peerID[:]...)
}

type HS struct {
	Reserved [8]byte
	InfoHash [20]byte
	PeerID   [20]byte
}

func (h HS) Fast() bool     { return h.Reserved[7]&0x04 != 0 }
func (h HS) Extended() bool { return h.Reserved[5]&0x10 != 0 }
func (h HS) DHT() bool      { return h.Reserved[7]&0x01 != 0 }

// ReadHandshake reads and validates 68 bytes.
func ReadHandshake(r io.Reader) (HS, error) {
	var b [68]byte
	if _, err := io.ReadFull(r, b[:]); err != nil {
		return HS{}, err
	}
	return ParseHandshake(b[:])
}

func ParseHandshake(b []byte) (HS, error) {
	var h HS
	if len(b) != 68 || b[0] != 19 || string(b[1:20]) != "BitTorrent protocol" {
		return h, errors.New("refwire: not a BitTorrent handshake")
	}
	copy(h.Reserved[:], b[20:28])
	copy(h.InfoHash[:], b[28:48])
	copy(h.PeerID[:], b[48:68])
	return h, nil
}

// Reserved bits this reference peer may advertise.
func ReservedBits(fast, extended, dht bool) (r [8]byte) {
	if fast {
		r[7] |= 0x04
	}
	if extended {
		r[5] |= 0x10
	}
	if dht {
		r[7] |= 0x01
	}
	return
}

// ExtHandshake builds an extended handshake (ext id 0).
func ExtHandshake(m map[string]int, extra benc.Dict) Msg {
	var md benc.Dict
	for k, v := range m {
		md = append(md, benc.KV{K: k, V: int64(v)})
	}
	d := benc.Dict{{K: "m", V: md.Sorted()}}
	d = append(d, extra...)
	return Msg{ID: Extended, ExtID: 0, Data: benc.Encode(d.Sorted())}
}

// MetadataMsg builds a ut_metadata message with the given ext id.
func MetadataMsg(extID byte, msgType, piece int, totalSize int, data []byte) Msg {
	d := benc.Dict{{K: "msg_type", V: int64(msgType)}, {K: "piece", V: int64(piece)}}
	if totalSize >= 0 {
		d = append(d, benc.KV{K: "total_size", V: int64(totalSize)})
	}
	return Msg{ID: Extended, ExtID: extID, Data: append(benc.Encode(d.Sorted()), data...)}
}

// ParseExt splits an extended payload into its dictionary and trailing bytes.
func ParseExt(data []byte) (benc.Dict, []byte, error) {
	v, n, err := benc.Decode(data)
	if err != nil {
		return nil, nil, err
	}
	d, ok := v.(benc.Dict)
	if !ok {
		return nil, nil, errors.New("refwire: extended payload is not a dictionary")
	}
	return d, data[n:], nil
}

// BitfieldBytes packs have[] into MSB-first bits.
func BitfieldBytes(have []bool) []byte {
	b := make([]byte, (len(have)+7)/8)
	for i, h := range have {
		if h {
			b[i/8] |= 0x80 >> (i % 8)
		}
	}
	return b
}

func BitSet(b []byte, i int) bool { return i/8 < len(b) && b[i/8]&(0x80>>(i%8)) != 0 }
