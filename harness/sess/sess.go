// Package sess builds rain sessions for the session-level scenarios: own
// loopback addresses, small timers, recording storage, quiescence detection.
package sess

import (
	"bytes"
	"fmt"
	"github.com/cenkalti/rain/v2/internal/logger"
	"net"
	"os"
	"path/filepath"
	"sync"
	"sync/atomic"
	"time"

	"github.com/cenkalti/rain/v2/torrent"
	"github.com/cenkalti/rain/v2/verifx/gen"
	"github.com/cenkalti/rain/v2/verifx/memstore"
	"github.com/cenkalti/rain/v2/verifx/refpeer"
)

var ipCounter atomic.Int64

// NextIP returns a loopback address of this process' own block 127.X.Y.Z:
// X.Y are derived from the pid, Z cycles through 1..254 (addresses may be reused
// by later scenarios of the same process after their sockets are closed).
func NextIP() string {
	pid := os.Getpid()
	n := ipCounter.Add(1) - 1
	x := 16 + pid%224
	y := (pid/224 + int(n/254)) % 256
	z := 1 + n%254
	return fmt.Sprintf("127.%d.%d.%d", x, y, z)
}

var portCounter atomic.Int64

// Opts for a session.
type Opts struct {
	Dir     string
	Storage *memstore.Provider
	Mutate  func(*torrent.Config)
}

var logOnce sync.Once

// New creates a session listening on its own loopback address with test-sized timers.
func New(o Opts) (*torrent.Session, torrent.Config, error) {
	logOnce.Do(func() {
		if os.Getenv("VX_RAIN_LOG") == "" {
			torrent.DisableLogging()
		} else if os.Getenv("VX_RAIN_LOG") == "debug" {
			logger.SetDebug()
		}
	})
	cfg := torrent.DefaultConfig
	cfg.Database = filepath.Join(o.Dir, "session.db")
	cfg.DataDir = filepath.Join(o.Dir, "data")
	cfg.Host = NextIP()
	pb := 20000 + int(portCounter.Add(1)*37%30000)
	cfg.PortBegin = uint16(pb)
	cfg.PortEnd = uint16(pb + 30)
	cfg.MaxOpenFiles = 0
	cfg.RPCEnabled = false
	cfg.DHTEnabled = false
	cfg.PEXEnabled = false
	cfg.ResumeWriteInterval = 100 * time.Millisecond
	cfg.HealthCheckInterval = time.Second
	cfg.HealthCheckTimeout = 20 * time.Second
	cfg.TrackerStopTimeout = 300 * time.Millisecond
	cfg.TrackerMinAnnounceInterval = 500 * time.Millisecond
	cfg.TrackerHTTPTimeout = 2 * time.Second
	cfg.PeerConnectTimeout = 3 * time.Second
	cfg.PeerHandshakeTimeout = 5 * time.Second
	cfg.RequestTimeout = 2 * time.Second
	cfg.PieceReadTimeout = 5 * time.Second
	cfg.WebseedRetryInterval = time.Second
	cfg.WebseedResponseBodyReadTimeout = 5 * time.Second
	cfg.BlocklistURL = ""
	cfg.DNSResolveTimeout = 2 * time.Second
	if o.Storage != nil {
		cfg.CustomStorage = o.Storage
	}
	if o.Mutate != nil {
		o.Mutate(&cfg)
	}
	s, err := torrent.NewSession(cfg)
	return s, cfg, err
}

// ListenAddr returns host:port the torrent listens on (valid once it runs).
func ListenAddr(cfg torrent.Config, t *torrent.Torrent) string {
	return net.JoinHostPort(cfg.Host, fmt.Sprint(t.Port()))
}

// WaitFor polls cond every 5 ms up to d.
func WaitFor(d time.Duration, cond func() bool) bool {
	dl := time.Now().Add(d)
	for {
		if cond() {
			return true
		}
		if time.Now().After(dl) {
			return false
		}
		time.Sleep(5 * time.Millisecond)
	}
}

// WaitStatus waits until the torrent reports one of the wanted states.
func WaitStatus(t *torrent.Torrent, d time.Duration, want ...torrent.Status) (torrent.Status, bool) {
	var last torrent.Status
	ok := WaitFor(d, func() bool {
		last = t.Stats().Status
		for _, w := range want {
			if last == w {
				return true
			}
		}
		return false
	})
	return last, ok
}

// Quiet reports whether fingerprint() stayed unchanged for `stable` (polled every
// 50 ms) within `max`. A verdict built on it must also consult the load canary.
func Quiet(stable, max time.Duration, fingerprint func() string) bool {
	dl := time.Now().Add(max)
	last := fingerprint()
	since := time.Now()
	for time.Now().Before(dl) {
		time.Sleep(50 * time.Millisecond)
		cur := fingerprint()
		if cur != last {
			last = cur
			since = time.Now()
			continue
		}
		if time.Since(since) >= stable {
			return true
		}
	}
	return false
}

// StatsFingerprint summarises the fields of Stats() that move while anything is going on.
func StatsFingerprint(t *torrent.Torrent) string {
	s := t.Stats()
	return fmt.Sprint(s.Status, s.Pieces.Have, s.Pieces.Checked, s.Bytes.Downloaded, s.Bytes.Uploaded, s.Bytes.Wasted, s.Bytes.Allocated, s.Peers.Total, s.Handshakes.Total, s.Downloads.Total, s.Addresses.Total, s.MetadataDownloads.Total)
}

// ContentOf builds the refpeer content descriptor of a layout.
func ContentOf(l *gen.Layout, truth []byte) *refpeer.Content {
	return &refpeer.Content{PieceLen: int64(l.PieceLen), Total: l.Total(), Truth: truth, NumPieces: l.NumPieces()}
}

// CheckFiles compares every non-padding file in a memstore store with the ground truth.
func CheckFiles(st *memstore.Store, l *gen.Layout, truth []byte) (bad []string) {
	for i, f := range l.Files {
		if f.Pad {
			continue
		}
		off, end := l.FileRange(i)
		got := st.Snapshot(filepath.FromSlash(l.JoinedPath(i)))
		if !bytes.Equal(got, truth[off:end]) {
			bad = append(bad, fmt.Sprintf("file %d (%s, %d bytes): stored %d bytes, equal=%v", i, l.JoinedPath(i), f.Length, len(got), false))
		}
	}
	return
}

// PadMap marks the flat positions that belong to padding files.
func PadMap(l *gen.Layout) []bool {
	m := make([]bool, l.Total())
	var off int64
	for _, f := range l.Files {
		if f.Pad {
			for i := off; i < off+f.Length; i++ {
				m[i] = true
			}
		}
		off += f.Length
	}
	return m
}
