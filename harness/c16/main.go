// C16: tier failover, bounded retry of announces that ended without a reply,
// robustness against hostile tracker replies.
package main

import (
	"context"
	"errors"
	"fmt"
	"math/rand"
	"net"
	"net/url"
	"os"
	"runtime"
	"strings"
	"sync"
	"sync/atomic"
	"time"

	"github.com/cenkalti/rain/v2/internal/announcer"
	"github.com/cenkalti/rain/v2/internal/logger"
	"github.com/cenkalti/rain/v2/internal/tracker"
	"github.com/cenkalti/rain/v2/internal/trackermanager"
	"github.com/cenkalti/rain/v2/verifx/benc"
	"github.com/cenkalti/rain/v2/verifx/reftracker"
	"github.com/cenkalti/rain/v2/verifx/vx"
)

var run *vx.Run

// ---------------------------------------------------------------- A. tier

type member struct {
	id      int
	calls   *[]int
	mu      *sync.Mutex
	outcome func(id int) bool // true = succeed
	gate    func(id int)      // optional barrier
}

func (m *member) Announce(ctx context.Context, req tracker.AnnounceRequest) (*tracker.AnnounceResponse, error) {
	m.mu.Lock()
	*m.calls = append(*m.calls, m.id)
	m.mu.Unlock()
	if m.gate != nil {
		m.gate(m.id)
	}
	if m.outcome(m.id) {
		return &tracker.AnnounceResponse{Interval: time.Minute}, nil
	}
	return nil, errors.New("scripted failure")
}
func (m *member) URL() string { return fmt.Sprintf("scripted://%d", m.id) }

func tierPattern(k int) {
	r := run.Rand("tier", k)
	n := 1 + r.Intn(6)
	steps := 20 + r.Intn(80)
	// pattern families: mostly failing, mostly ok, long failure runs (>= n consecutive), member-specific
	fam := r.Intn(4)
	pFail := []float64{0.9, 0.2, 0.6, 0.5}[fam]
	dead := map[int]bool{}
	if fam == 3 {
		for i := 0; i < n; i++ {
			if r.Intn(2) == 0 {
				dead[i] = true
			}
		}
	}
	var calls []int
	var mu sync.Mutex
	var next bool
	ms := make([]tracker.Tracker, n)
	for i := 0; i < n; i++ {
		ms[i] = &member{id: i, calls: &calls, mu: &mu, outcome: func(id int) bool { return next }}
	}
	t := tracker.NewTier(ms)
	order := make([]int, n) // position -> member id after the shuffle
	for i, m := range t.Trackers {
		order[i] = m.(*member).id
	}
	cur := 0
	var pat []byte
	consecutiveFail := 0
	maxConsec := 0
	for s := 0; s < steps; s++ {
		target := order[cur]
		ok := r.Float64() >= pFail
		if fam == 3 {
			ok = !dead[target]
		}
		if fam == 2 && s%(3*n+2) < n+1 {
			ok = false // a run of more than n failures: wraps around the tier
		}
		next = ok
		before := len(calls)
		urlBefore := t.URL()
		_, err := t.Announce(context.Background(), tracker.AnnounceRequest{})
		if len(calls) != before+1 {
			run.Violation("tier-call-count", fmt.Sprintf("tier pattern %d: one Announce produced %d member calls", k, len(calls)-before), nil)
			return
		}
		got := calls[before]
		if ok {
			pat = append(pat, '+')
			consecutiveFail = 0
		} else {
			pat = append(pat, '-')
			consecutiveFail++
			if consecutiveFail > maxConsec {
				maxConsec = consecutiveFail
			}
		}
		if (err == nil) != ok {
			run.Violation("tier-result", fmt.Sprintf("tier pattern %d step %d: member outcome ok=%v but Announce returned err=%v", k, s, ok, err), nil)
			return
		}
		if got != target || urlBefore != fmt.Sprintf("scripted://%d", target) {
			sig := "tier-rotation"
			if maxConsec >= n && n >= 2 {
				sig = "tier-rotation"
			}
			run.Violation(sig, fmt.Sprintf("tier pattern %d (n=%d, order %v) step %d after %q: announce went to member %d (URL()=%s), expected member %d (next after the last failure / same after success)", k, n, order, s, string(pat[:len(pat)-1]), got, urlBefore, target),
				map[string]any{"n": n, "order": order, "pattern": string(pat), "calls": calls})
			return
		}
		if !ok {
			cur = (cur + 1) % n
		}
	}
	run.Count("tier_announces", int64(steps))
	if maxConsec >= n {
		run.Count("tier_patterns_with_full_failure_cycle", 1)
	}
	run.Distinct("tier|" + vx.Hash(n, order, string(pat)))
	if k < 2 {
		run.Sample(map[string]any{"tier_size": n, "shuffled_order": order, "pattern": string(pat), "member_calls": calls})
	}
}

// k goroutines announce at once, all hit the same member, all fail: the tier must advance by exactly one
func tierConcurrent(k int) {
	r := run.Rand("tierc", k)
	n := 2 + r.Intn(5)
	g := 2 + r.Intn(7)
	var calls []int
	var mu sync.Mutex
	var entered atomic.Int32
	release := make(chan struct{})
	var gateOn atomic.Bool
	ms := make([]tracker.Tracker, n)
	for i := 0; i < n; i++ {
		ms[i] = &member{id: i, calls: &calls, mu: &mu, outcome: func(id int) bool { return false },
			gate: func(id int) {
				if gateOn.Load() {
					entered.Add(1)
					<-release
				}
			}}
	}
	t := tracker.NewTier(ms)
	order := make([]int, n)
	for i, m := range t.Trackers {
		order[i] = m.(*member).id
	}
	// move to a PRNG start position with sequential failures first
	start := r.Intn(2 * n)
	for i := 0; i < start; i++ {
		t.Announce(context.Background(), tracker.AnnounceRequest{})
	}
	cur := start % n
	gateOn.Store(true)
	base := len(calls)
	var wg sync.WaitGroup
	for i := 0; i < g; i++ {
		wg.Add(1)
		go func() { defer wg.Done(); t.Announce(context.Background(), tracker.AnnounceRequest{}) }()
	}
	deadline := time.Now().Add(20 * time.Second)
	for entered.Load() < int32(g) && time.Now().Before(deadline) {
		time.Sleep(time.Millisecond)
	}
	if entered.Load() < int32(g) {
		close(release)
		wg.Wait()
		run.Inconclusive("concurrent tier announces did not all start")
		return
	}
	close(release)
	wg.Wait()
	gateOn.Store(false)
	mu.Lock()
	burst := append([]int(nil), calls[base:]...)
	mu.Unlock()
	for _, c := range burst {
		if c != order[cur] {
			run.Violation("tier-concurrent-target", fmt.Sprintf("tier concurrent %d: burst member %d, expected %d", k, c, order[cur]), nil)
			return
		}
	}
	before := len(calls)
	t.Announce(context.Background(), tracker.AnnounceRequest{})
	got := calls[before]
	want := order[(cur+1)%n]
	if got != want {
		sig := "tier-concurrent-advance"
		if start+1 >= n {
			sig = "tier-rotation"
		}
		run.Violation(sig, fmt.Sprintf("tier concurrent %d (n=%d order %v): %d simultaneous failed announces to member %d, next announce went to member %d, expected %d", k, n, order, g, order[cur], got, want), nil)
		return
	}
	run.Count("tier_concurrent_bursts", 1)
	run.Distinct("tierc|" + vx.Hash(n, g, start))
}

// ---------------------------------------------------------------- B. announcer retry (child)

type timeoutErr struct{}

func (timeoutErr) Error() string   { return "scripted timeout" }
func (timeoutErr) Timeout() bool   { return true }
func (timeoutErr) Temporary() bool { return true }

type scripted struct {
	mu       sync.Mutex
	outcomes []string
	times    []time.Time
	events   []tracker.Event
}

func (s *scripted) URL() string { return "scripted://announcer" }
func (s *scripted) Announce(ctx context.Context, req tracker.AnnounceRequest) (*tracker.AnnounceResponse, error) {
	s.mu.Lock()
	i := len(s.times)
	s.times = append(s.times, time.Now())
	s.events = append(s.events, req.Event)
	o := "ok"
	if i < len(s.outcomes) {
		o = s.outcomes[i]
	}
	s.mu.Unlock()
	switch o {
	case "error":
		return nil, errors.New("scripted failure")
	case "timeout":
		return nil, &url.Error{Op: "Get", URL: "scripted", Err: timeoutErr{}}
	case "decode":
		return nil, tracker.ErrDecode
	case "tracker-error":
		return nil, &tracker.Error{FailureReason: "scripted reason"}
	case "foreign-cancel": // the shared tracker connection was torn down by somebody else
		return nil, context.Canceled
	case "foreign-cancel-wrapped":
		return nil, fmt.Errorf("connect: %w", context.Canceled)
	case "ok-short":
		return &tracker.AnnounceResponse{Interval: time.Second}, nil
	}
	return &tracker.AnnounceResponse{Interval: time.Hour}, nil
}

func retryScenario(k int) {
	id := fmt.Sprintf("retry-%d", k)
	run.CaseStart(id)
	defer run.CaseEndDeferred(id)
	r := run.Rand("retry", k)
	kinds := []string{"error", "timeout", "decode", "tracker-error", "foreign-cancel", "foreign-cancel-wrapped"}
	var outcomes []string
	if r.Intn(3) == 0 {
		outcomes = append(outcomes, "ok-short")
	}
	outcomes = append(outcomes, kinds[k%len(kinds)])
	if r.Intn(3) == 0 {
		outcomes = append(outcomes, kinds[r.Intn(len(kinds))])
	}
	s := &scripted{outcomes: outcomes}
	newPeers := make(chan []*net.TCPAddr, 16)
	go func() {
		for range newPeers {
		}
	}()
	an := announcer.NewPeriodicalAnnouncer(s, 50, 500*time.Millisecond, func() tracker.Torrent { return tracker.Torrent{} }, make(chan struct{}), newPeers, logger.New("c16"))
	go an.Run()
	defer an.Close()
	t0 := time.Now()
	run.Eval(1)
	want := len(outcomes) + 1 // every scripted outcome plus the announce that follows the last failure
	// back-off: 5 s x 2^i, +-50 % => i-th consecutive retry within 7.5 s x 2^i; observe to quiescence well beyond it
	nFail := 0
	for _, o := range outcomes {
		if o != "ok-short" {
			nFail++
		}
	}
	window := time.Duration(12<<(nFail-1)) * time.Second
	if outcomes[0] == "ok-short" {
		window += 2 * time.Second
	}
	deadline := t0.Add(window)
	for time.Now().Before(deadline) {
		s.mu.Lock()
		n := len(s.times)
		s.mu.Unlock()
		if n >= want {
			break
		}
		time.Sleep(20 * time.Millisecond)
	}
	s.mu.Lock()
	n := len(s.times)
	times := append([]time.Time(nil), s.times...)
	s.mu.Unlock()
	st := an.Stats()
	if n < want {
		if vx.CanaryWorstSince(t0) > 2*time.Second {
			run.Inconclusive("retry scenario: load canary late")
			return
		}
		lost := outcomes[n-1]
		run.Violation("announce-not-retried:"+lost, fmt.Sprintf("retry scenario %d outcomes %v: announce #%d ended with %q and no further announce followed within %s (bounded back-off is 7.5 s x 2^i); tracker status=%d", k, outcomes, n, lost, window, st.Status),
			map[string]any{"outcomes": outcomes, "announce_times_ms": rel(times, t0)})
		return
	}
	run.Count("announcer_retries_observed", int64(nFail))
	run.Distinct("retry|" + strings.Join(outcomes, ","))
	if k < 2 {
		run.Sample(map[string]any{"scripted_outcomes": outcomes, "announce_times_ms": rel(times, t0)})
	}
}

func rel(ts []time.Time, t0 time.Time) []int64 {
	var o []int64
	for _, t := range ts {
		o = append(o, t.Sub(t0).Milliseconds())
	}
	return o
}

// two torrents share one UDP tracker that never answers "connect"; the first one goes away
func sharedScenario(k int) {
	id := fmt.Sprintf("shared-%d", k)
	run.CaseStart(id)
	defer run.CaseEndDeferred(id)
	ut, err := reftracker.NewUDP("shared", "127.0.0.1", nil)
	if err != nil {
		run.Inconclusive("udp listen: " + err.Error())
		return
	}
	defer ut.Close()
	ut.AnswerConnect.Store(false)
	tm := trackermanager.New(nil, 2*time.Second, true)
	defer tm.Close()
	mk := func(name string) (*announcer.PeriodicalAnnouncer, chan []*net.TCPAddr) {
		trk, err := tm.Get(ut.URL, 3*time.Second, "ua", 1<<20)
		if err != nil {
			panic(err)
		}
		np := make(chan []*net.TCPAddr, 16)
		var pid [20]byte
		copy(pid[:], name)
		return announcer.NewPeriodicalAnnouncer(trk, 50, 500*time.Millisecond, func() tracker.Torrent { return tracker.Torrent{PeerID: pid, Port: 1} }, make(chan struct{}), np, logger.New("c16"+name)), np
	}
	a, _ := mk("torrent-A")
	b, _ := mk("torrent-B")
	run.Eval(1)
	go a.Run()
	// let A's request create the shared connection, then B queues behind it
	waitPackets := func(n int, d time.Duration) bool {
		dl := time.Now().Add(d)
		for time.Now().Before(dl) {
			if len(ut.Packets()) >= n {
				return true
			}
			time.Sleep(10 * time.Millisecond)
		}
		return false
	}
	if !waitPackets(1, 10*time.Second) {
		run.Inconclusive("shared: first connect packet never arrived")
		a.Close()
		return
	}
	go b.Run()
	time.Sleep(time.Duration(100+k%5*100) * time.Millisecond)
	t0 := time.Now()
	before := len(ut.Packets())
	a.Close() // torrent A stops: its context is cancelled
	// B must get back to the tracker after a bounded back-off (first step <= 7.5 s)
	got := false
	dl := time.Now().Add(14 * time.Second)
	for time.Now().Before(dl) {
		if len(ut.Packets()) > before {
			got = true
			break
		}
		time.Sleep(20 * time.Millisecond)
	}
	st := b.Stats()
	b.Close()
	if !got {
		if vx.CanaryWorstSince(t0) > 2*time.Second {
			run.Inconclusive("shared: canary late")
			return
		}
		run.Violation("announce-not-retried:abort-by-other-torrent", fmt.Sprintf("shared UDP tracker %d: torrent A (whose request owned the pending connect) was closed; torrent B sent nothing to the tracker for 14 s afterwards (status=%d, 1=Contacting)", k, st.Status),
			map[string]any{"packets_before_close": before, "packets_after": len(ut.Packets())})
		return
	}
	run.Count("shared_connect_recoveries", 1)
	run.Distinct(fmt.Sprintf("shared|%d", k%5))
}

// ---------------------------------------------------------------- C. reply fuzz (child)

func genBody(r *rand.Rand) ([]byte, string) {
	peer := func() *net.TCPAddr {
		return &net.TCPAddr{IP: net.IPv4(byte(1+r.Intn(223)), byte(r.Intn(256)), byte(r.Intn(256)), byte(1+r.Intn(254))), Port: 1 + r.Intn(65535)}
	}
	ints := []int64{0, 1, -1, 1800, 1 << 31, -(1 << 31), 1<<63 - 1, -(1 << 62)}
	switch r.Intn(14) {
	case 0:
		var ps []*net.TCPAddr
		for i := r.Intn(60); i > 0; i-- {
			ps = append(ps, peer())
		}
		return reftracker.HTTPBody(reftracker.Reply{Kind: "ok", Interval: reftracker.I(ints[r.Intn(len(ints))]), MinInterval: reftracker.I(ints[r.Intn(len(ints))]), Peers: ps}), "valid-compact"
	case 1:
		var ps []*net.TCPAddr
		for i := r.Intn(20); i > 0; i-- {
			ps = append(ps, peer())
		}
		strs := []string{"", "example.invalid", "999.1.1.1", "1.2.3", "::1", "2001:db8::7", "1.2.3.4.5", " 1.2.3.4", "localhost", "\x00\x01", "0x7f.1", "1.2.3.4"}
		var ss []string
		for i := r.Intn(4); i > 0; i-- {
			ss = append(ss, strs[r.Intn(len(strs))])
		}
		return reftracker.HTTPBody(reftracker.Reply{Kind: "ok", Interval: reftracker.I(1800), Peers: ps, PeersDict: true, PeerStrings: ss}), "dict-peers"
	case 2:
		b := make([]byte, r.Intn(40))
		r.Read(b)
		d := benc.Dict{{K: "interval", V: int64(1800)}, {K: "peers", V: b}}
		return benc.Encode(d.Sorted()), "compact-odd-length"
	case 3:
		vals := []any{int64(7), benc.List{int64(1), "x"}, benc.Dict{{K: "a", V: "b"}}, benc.List{benc.Dict{{K: "ip", V: int64(5)}, {K: "port", V: "x"}}}, benc.List{benc.Dict{{K: "ip", V: "1.2.3.4"}, {K: "port", V: int64(70000)}}}, benc.List{benc.Dict{{K: "port", V: int64(-1)}}}, benc.List{"str"}}
		d := benc.Dict{{K: "interval", V: int64(1800)}, {K: "peers", V: vals[r.Intn(len(vals))]}}
		return benc.Encode(d.Sorted()), "peers-wrong-type"
	case 4:
		vals := []any{int64(1), benc.List{}, benc.Dict{}, "", "go away"}
		d := benc.Dict{{K: "failure reason", V: vals[r.Intn(len(vals))]}, {K: "retry in", V: []any{"never", "5", int64(3), "-1", "99999999999999999999"}[r.Intn(5)]}}
		return benc.Encode(d.Sorted()), "failure"
	case 5:
		return []byte(strings.Repeat("l", 1+r.Intn(20000)) + strings.Repeat("e", r.Intn(20000))), "deep-nesting"
	case 6:
		return []byte(strings.Repeat("d1:a", 1+r.Intn(5000))), "deep-dicts"
	case 7:
		b := reftracker.HTTPBody(reftracker.Reply{Kind: "ok", Interval: reftracker.I(1800), Peers: []*net.TCPAddr{peer(), peer()}})
		return b[:r.Intn(len(b))], "truncated"
	case 8:
		b := make([]byte, r.Intn(300))
		r.Read(b)
		return b, "random-bytes"
	case 9:
		b := reftracker.HTTPBody(reftracker.Reply{Kind: "ok", Interval: reftracker.I(1800), MinInterval: reftracker.I(60), Peers: []*net.TCPAddr{peer(), peer(), peer()}})
		for i := 1 + r.Intn(4); i > 0; i-- {
			b[r.Intn(len(b))] = byte(r.Intn(256))
		}
		return b, "mutated"
	case 10:
		return []byte(fmt.Sprintf("d8:intervali1800e5:peers%d:", []int64{1 << 40, 1<<63 - 1, 6000000, 2000000000, 2147483647, 1878345312}[r.Intn(6)])), "huge-declared-string"
	case 11:
		ext := make([]byte, []int{0, 1, 4, 16, 100}[r.Intn(5)])
		r.Read(ext)
		return reftracker.HTTPBody(reftracker.Reply{Kind: "ok", Interval: reftracker.I(1800), Peers: []*net.TCPAddr{peer(), peer()}, ExternalIP: ext}), "external-ip"
	case 12:
		d := benc.Dict{{K: "interval", V: "soon"}, {K: "complete", V: "many"}, {K: "peers", V: ""}, {K: "tracker id", V: int64(4)}}
		return benc.Encode(d.Sorted()), "wrong-scalar-types"
	default:
		return []byte("d8:intervali-0e5:peers0:e"), "odd-ints"
	}
}

func checkPeers(resp *tracker.AnnounceResponse) string {
	for i, p := range resp.Peers {
		if p == nil {
			return fmt.Sprintf("peer %d is nil", i)
		}
		if len(p.IP) != 4 && len(p.IP) != 16 {
			return fmt.Sprintf("peer %d has an IP of %d bytes (%q) - not an address", i, len(p.IP), p.IP.String())
		}
		if p.Port < 0 || p.Port > 65535 {
			return fmt.Sprintf("peer %d has port %d", i, p.Port)
		}
	}
	return ""
}

func fuzzChild() {
	lo, hi := 0, 0
	fmt.Sscanf(os.Getenv("VX_RANGE"), "%d-%d", &lo, &hi)
	tm := trackermanager.New(nil, 2*time.Second, true)
	defer tm.Close()
	var cur atomic.Value
	ht, err := reftracker.NewHTTP("fuzz", "127.0.0.1", func(a reftracker.Announce) reftracker.Reply {
		return reftracker.Reply{Kind: "raw", Raw: cur.Load().([]byte)}
	})
	if err != nil {
		run.Inconclusive("http listen: " + err.Error())
		return
	}
	defer ht.Close()
	htr, _ := tm.Get(ht.URL, 5*time.Second, "ua", 64<<10)
	var udpCur atomic.Value
	ut, err := reftracker.NewUDP("fuzz", "127.0.0.1", func(a reftracker.Announce) reftracker.Reply {
		return udpCur.Load().(reftracker.Reply)
	})
	if err != nil {
		run.Inconclusive("udp listen: " + err.Error())
		return
	}
	defer ut.Close()
	utr, _ := tm.Get(ut.URL, 5*time.Second, "ua", 64<<10)
	req := tracker.AnnounceRequest{Torrent: tracker.Torrent{Port: 6881}, Event: tracker.EventStarted, NumWant: 50}
	for k := lo; k < hi; k++ {
		r := run.Rand("fuzz", k)
		id := fmt.Sprintf("fuzz-%d", k)
		if k%3 != 0 { // HTTP
			body, kind := genBody(r)
			cur.Store(body)
			run.CaseStart(id + ":http:" + kind + ":" + fmt.Sprintf("%x", trunc(body, 200)))
			var m0, m1 runtime.MemStats
			runtime.ReadMemStats(&m0)
			ctx, cancel := context.WithTimeout(context.Background(), 10*time.Second)
			resp, err := htr.Announce(ctx, req)
			cancel()
			runtime.ReadMemStats(&m1)
			run.Eval(1)
			if d := m1.TotalAlloc - m0.TotalAlloc; d > 128<<20 {
				run.Violation("http-reply-allocation:"+kind, fmt.Sprintf("fuzz %d (%s): handling a %d-byte tracker reply allocated %d MiB; body %q", k, kind, len(body), d>>20, trunc(body, 200)), nil)
			}
			if err == nil {
				if why := checkPeers(resp); why != "" {
					run.Violation("http-reply-malformed-peer:"+kind, fmt.Sprintf("fuzz %d (%s): Announce returned success with %s; body %q", k, kind, why, trunc(body, 300)), map[string]any{"body_hex": fmt.Sprintf("%x", trunc(body, 2000))})
				}
				run.Count("http_replies_accepted", 1)
			} else {
				run.Count("http_replies_rejected", 1)
			}
			run.Distinct("http|" + kind + "|" + vx.Hash(body))
			run.CaseEnd(id + ":http:" + kind + ":" + fmt.Sprintf("%x", trunc(body, 200)))
			if k < 8 {
				run.Sample(map[string]any{"transport": "http", "kind": kind, "body": string(trunc(body, 120)), "accepted": err == nil})
			}
		} else { // UDP
			real := []*net.TCPAddr{{IP: net.IPv4(11, 22, 33, 44).To4(), Port: 4000 + k%1000}}
			kinds := []string{"ok", "wrong-trx-then-ok", "dup", "short", "error-action", "failure", "raw"}
			rep := reftracker.Reply{Kind: kinds[r.Intn(len(kinds))], Interval: reftracker.I(1800), Peers: real}
			rep.Raw = make([]byte, r.Intn(64))
			r.Read(rep.Raw)
			if rep.Kind == "raw" && len(rep.Raw) >= 4 && r.Intn(2) == 0 {
				copy(rep.Raw, []byte{0, 0, 0, byte(r.Intn(4))})
			}
			rep.FailureReason = "nope"
			udpCur.Store(rep)
			run.CaseStart(id + ":udp:" + rep.Kind)
			ctx, cancel := context.WithTimeout(context.Background(), 1500*time.Millisecond)
			resp, err := utr.Announce(ctx, req)
			cancel()
			run.Eval(1)
			if err == nil {
				if why := checkPeers(resp); why != "" {
					run.Violation("udp-reply-malformed-peer:"+rep.Kind, fmt.Sprintf("fuzz %d: UDP %s reply accepted with %s", k, rep.Kind, why), nil)
				}
				for _, p := range resp.Peers {
					if p.IP.Equal(net.IPv4(10, 66, 66, 66)) {
						run.Violation("udp-foreign-transaction-accepted", fmt.Sprintf("fuzz %d: peers of a datagram carrying a different transaction id were returned", k), nil)
					}
				}
				if rep.Kind == "wrong-trx-then-ok" || rep.Kind == "ok" || rep.Kind == "dup" {
					if len(resp.Peers) != 1 || !resp.Peers[0].IP.Equal(real[0].IP) || resp.Peers[0].Port != real[0].Port {
						run.Violation("udp-reply-peers", fmt.Sprintf("fuzz %d: UDP %s reply: returned peers %v, tracker sent %v", k, rep.Kind, resp.Peers, real), nil)
					}
				}
				run.Count("udp_replies_accepted", 1)
			} else {
				if rep.Kind == "ok" || rep.Kind == "dup" || rep.Kind == "wrong-trx-then-ok" {
					run.Violation("udp-legal-reply-refused:"+rep.Kind, fmt.Sprintf("fuzz %d: well-formed UDP reply (%s) ended in error %v", k, rep.Kind, err), nil)
				}
				run.Count("udp_replies_rejected", 1)
			}
			run.Distinct("udp|" + rep.Kind + "|" + vx.Hash(rep.Raw))
			run.CaseEnd(id + ":udp:" + rep.Kind)
		}
	}
}

func trunc(b []byte, n int) []byte {
	if len(b) > n {
		return b[:n]
	}
	return b
}

// endless body and oversized Content-Length: the client must stop near the configured limit
func limitChild() {
	tm := trackermanager.New(nil, 2*time.Second, true)
	defer tm.Close()
	for k, kind := range []string{"endless", "huge-content-length", "endless"} {
		id := fmt.Sprintf("limit-%d-%s", k, kind)
		run.CaseStart(id)
		ht, err := reftracker.NewHTTP("limit", "127.0.0.1", func(a reftracker.Announce) reftracker.Reply { return reftracker.Reply{Kind: kind} })
		if err != nil {
			run.Inconclusive("listen")
			return
		}
		limit := int64(16 << 10)
		tr, _ := tm.Get(ht.URL, 3*time.Second, "ua", limit)
		ctx, cancel := context.WithTimeout(context.Background(), 20*time.Second)
		_, aerr := tr.Announce(ctx, tracker.AnnounceRequest{})
		cancel()
		time.Sleep(200 * time.Millisecond)
		w := ht.EndlessWritten.Load()
		ht.Close()
		run.Eval(1)
		// what the server could push = what the client read + kernel socket buffers; 64 MiB is far above any
		// loopback buffer and far below what an unlimited reader takes in 3 s
		if kind == "endless" && w > limit+(64<<20) {
			run.Violation("http-response-limit", fmt.Sprintf("endless tracker body: the client let the server send %d bytes with a response limit of %d (err=%v)", w, limit, aerr), nil)
		}
		if aerr == nil && kind == "huge-content-length" {
			run.Violation("http-response-limit", "reply declaring Content-Length 999999999 with limit 16384 was accepted", nil)
		}
		run.Count("limit_cases", 1)
		run.Max("endless_bytes_server_could_send", w)
		run.Distinct("limit|" + kind + fmt.Sprint(k))
		run.CaseEnd(id)
	}
}

// ---------------------------------------------------------------- main

func main() {
	run = vx.Begin("C16", "exploration",
		"(A) PRNG success/failure patterns over tiers of 1-6 scripted members incl. runs of >= n failures and simultaneous failing announces, compared with the cyclic model; (B) PeriodicalAnnouncer against scripted outcomes (error, timeout, decode, tracker error, cancellation not requested by the announcer) - the next announce must follow within the bounded back-off, decided at quiescence with a load canary; (C) two announcers sharing one UDP tracker that never answers connect, the first is closed; (D) generated HTTP bodies / UDP datagrams (structure-aware + mutation + random) against the real tracker clients in a child process; endless body vs response limit. distinct = distinct patterns / outcome scripts / reply bodies")
	logger.Disable()
	vx.StartCanary()
	switch vx.ChildRole() {
	case "retry":
		lo, hi := 0, 0
		fmt.Sscanf(os.Getenv("VX_RANGE"), "%d-%d", &lo, &hi)
		vx.Parallel(hi-lo, 24, func(i int) { retryScenario(lo + i) })
		run.Finish(0)
	case "shared":
		lo, hi := 0, 0
		fmt.Sscanf(os.Getenv("VX_RANGE"), "%d-%d", &lo, &hi)
		vx.Parallel(hi-lo, 8, func(i int) { sharedScenario(lo + i) })
		run.Finish(0)
	case "fuzz":
		fuzzChild()
		run.Finish(0)
	case "limit":
		limitChild()
		run.Finish(0)
	}
	nTier := run.N(3000, 200000)
	vx.Parallel(nTier, 16, func(k int) {
		if run.Enough() {
			return
		}
		run.Eval(1)
		if pt, ok := vx.Try(func() { tierPattern(k) }); !ok {
			run.Violation("tier-panic", fmt.Sprintf("tier pattern %d: panic %s", k, pt), nil)
		}
	})
	nConc := run.N(200, 5000)
	vx.Parallel(nConc, 16, func(k int) {
		if run.Enough() {
			return
		}
		run.Eval(1)
		if pt, ok := vx.Try(func() { tierConcurrent(k) }); !ok {
			run.Violation("tier-panic", fmt.Sprintf("tier concurrent %d: panic %s", k, pt), nil)
		}
	})
	var wg sync.WaitGroup
	spawn := func(role, rng string, timeout time.Duration, crashSig string) {
		defer wg.Done()
		res := run.Spawn(role, []string{"VX_RANGE=" + rng}, timeout)
		if res.Crashed {
			logp := run.KeepLog(res, fmt.Sprintf("%s-%s.log", role, rng))
			run.Violation(crashSig+":"+res.RainFrame, fmt.Sprintf("%s child died: %s (frame %s) during case %q; log %s", role, res.PanicText, res.RainFrame, trunc([]byte(res.OpenCase), 300), logp), map[string]any{"case": res.OpenCase, "tail": res.Tail})
		} else if res.TimedOut {
			run.Inconclusive(role + " child exceeded its watchdog")
		}
	}
	nRetry := run.N(24, 400)
	for lo := 0; lo < nRetry; lo += 48 {
		hi := lo + 48
		if hi > nRetry {
			hi = nRetry
		}
		wg.Add(1)
		go spawn("retry", fmt.Sprintf("%d-%d", lo, hi), 10*time.Minute, "crash-announcer")
	}
	nShared := run.N(3, 40)
	wg.Add(1)
	go spawn("shared", fmt.Sprintf("0-%d", nShared), 10*time.Minute, "crash-udp-shared")
	nFuzz := run.N(6000, 120000)
	per := nFuzz / 6
	for i := 0; i < 6; i++ {
		wg.Add(1)
		go spawn("fuzz", fmt.Sprintf("%d-%d", i*per, (i+1)*per), 40*time.Minute, "crash-on-tracker-reply")
	}
	wg.Add(1)
	go spawn("limit", "0-0", 5*time.Minute, "crash-on-tracker-reply")
	wg.Wait()
	run.Assume("'cycling indefinitely' is observed for 20-100 announces per pattern; 'retried for as long as the torrent runs' for the first one or two back-off steps (the back-off schedule is a constant of the announcer: 5 s x 2^i +-50 %)")
	run.Finish(300)
}
