// Package benc is an independent bencode writer/reader used by the reference
// side of the harness (never rain's own codec).
package benc

import (
	"bytes"
	"errors"
	"sort"
	"strconv"
)

// Value kinds: int64, string, []byte, List, Dict, Raw.
type List []any
type KV struct {
	K string
	V any
}

// Dict keeps insertion order; Sorted() returns a canonical copy.
type Dict []KV
type Raw []byte

func D(kv ...any) Dict {
	var d Dict
	for i := 0; i+1 < len(kv); i += 2 {
		d = append(d, KV{kv[i].(string), kv[i+1]})
	}
	return d
}

func (d Dict) Sorted() Dict {
	c := append(Dict(nil), d...)
	sort.SliceStable(c, func(i, j int) bool { return c[i].K < c[j].K })
	return c
}

func (d Dict) Get(k string) (any, bool) {
	for _, kv := range d {
		if kv.K == k {
			return kv.V, true
		}
	}
	return nil, false
}

func (d Dict) Set(k string, v any) Dict {
	for i, kv := range d {
		if kv.K == k {
			c := append(Dict(nil), d...)
			c[i].V = v
			return c
		}
	}
	return append(append(Dict(nil), d...), KV{k, v})
}

func (d Dict) Del(k string) Dict {
	var c Dict
	for _, kv := range d {
		if kv.K != k {
			c = append(c, kv)
		}
	}
	return c
}

// Encode writes v; dictionaries are written in the order given (caller sorts).
func Encode(v any) []byte {
	var b bytes.Buffer
	enc(&b, v)
	return b.Bytes()
}

func enc(b *bytes.Buffer, v any) {
	switch x := v.(type) {
	case int:
		b.WriteByte('i')
		b.WriteString(strconv.Itoa(x))
		b.WriteByte('e')
	case int64:
		b.WriteByte('i')
		b.WriteString(strconv.FormatInt(x, 10))
		b.WriteByte('e')
	case uint32:
		b.WriteByte('i')
		b.WriteString(strconv.FormatUint(uint64(x), 10))
		b.WriteByte('e')
	case uint64:
		b.WriteByte('i')
		b.WriteString(strconv.FormatUint(x, 10))
		b.WriteByte('e')
	case string:
		b.WriteString(strconv.Itoa(len(x)))
		b.WriteByte(':')
		b.WriteString(x)
	case []byte:
		b.WriteString(strconv.Itoa(len(x)))
		b.WriteByte(':')
		b.Write(x)
	case Raw:
		b.Write(x)
	case List:
		b.WriteByte('l')
		for _, e := range x {
			enc(b, e)
		}
		b.WriteByte('e')
	case []string:
		b.WriteByte('l')
		for _, e := range x {
			enc(b, e)
		}
		b.WriteByte('e')
	case Dict:
		b.WriteByte('d')
		for _, kv := range x {
			enc(b, kv.K)
			enc(b, kv.V)
		}
		b.WriteByte('e')
	default:
		panic("benc: unsupported type")
	}
}

// Decode parses one value and returns the number of bytes consumed.
// Strings come back as string, ints as int64.
func Decode(b []byte) (v any, n int, err error) {
	return dec(b, 0, 0)
}

var ErrSyntax = errors.New("benc: syntax error")

func dec(b []byte, i, depth int) (any, int, error) {
	if depth > 200 || i >= len(b) {
		return nil, i, ErrSyntax
	}
	switch c := b[i]; {
	case c == 'i':
		j := bytes.IndexByte(b[i:], 'e')
		if j < 0 {
			return nil, i, ErrSyntax
		}
		v, err := strconv.ParseInt(string(b[i+1:i+j]), 10, 64)
		if err != nil {
			return nil, i, ErrSyntax
		}
		return v, i + j + 1, nil
	case c >= '0' && c <= '9':
		j := bytes.IndexByte(b[i:], ':')
		if j < 0 {
			return nil, i, ErrSyntax
		}
		l, err := strconv.Atoi(string(b[i : i+j]))
		if err != nil || l < 0 || i+j+1+l > len(b) {
			return nil, i, ErrSyntax
		}
		return string(b[i+j+1 : i+j+1+l]), i + j + 1 + l, nil
	case c == 'l':
		i++
		var l List
		for {
			if i >= len(b) {
				return nil, i, ErrSyntax
			}
			if b[i] == 'e' {
				return l, i + 1, nil
			}
			v, n, err := dec(b, i, depth+1)
			if err != nil {
				return nil, i, err
			}
			l = append(l, v)
			i = n
		}
	case c == 'd':
		i++
		var d Dict
		for {
			if i >= len(b) {
				return nil, i, ErrSyntax
			}
			if b[i] == 'e' {
				return d, i + 1, nil
			}
			k, n, err := dec(b, i, depth+1)
			if err != nil {
				return nil, i, err
			}
			ks, ok := k.(string)
			if !ok {
				return nil, i, ErrSyntax
			}
			v, n2, err := dec(b, n, depth+1)
			if err != nil {
				return nil, i, err
			}
			d = append(d, KV{ks, v})
			i = n2
		}
	}
	return nil, i, ErrSyntax
}
