// Package refdht is a minimal reference DHT node (BEP 5 KRPC over UDP) with its
// own bencode codec: it logs every query it receives and answers get_peers with
// scripted peer values, so that a client configured with this node as its only
// bootstrap router shows every lookup and announce it makes.
package refdht

import (
	"net"
	"sync"

	"github.com/cenkalti/rain/v2/verifx/benc"
	"github.com/cenkalti/rain/v2/verifx/evlog"
)

type Query struct {
	Seq      int64
	Type     string // ping | find_node | get_peers | announce_peer | other
	InfoHash string // raw 20 bytes for get_peers / announce_peer
	Port     int64
	From     string
}

type Node struct {
	conn      *net.UDPConn
	id        [20]byte
	mu        sync.Mutex
	log       []Query
	findNodes int
	// Values returns the compact peer entries to hand out for an info-hash.
	Values func(infoHash string) []*net.TCPAddr
}

func New(ip string) (*Node, error) {
	c, err := net.ListenUDP("udp4", &net.UDPAddr{IP: net.ParseIP(ip)})
	if err != nil {
		return nil, err
	}
	n := &Node{conn: c}
	copy(n.id[:], "refdht-node-id-00001")
	go n.loop()
	return n, nil
}

func (n *Node) Addr() *net.UDPAddr { return n.conn.LocalAddr().(*net.UDPAddr) }
func (n *Node) Close()             { n.conn.Close() }

func (n *Node) Queries() []Query {
	n.mu.Lock()
	defer n.mu.Unlock()
	return append([]Query(nil), n.log...)
}

func str(d benc.Dict, k string) string {
	v, _ := d.Get(k)
	switch x := v.(type) {
	case string:
		return x
	case []byte:
		return string(x)
	}
	return ""
}

func (n *Node) loop() {
	buf := make([]byte, 4096)
	for {
		k, from, err := n.conn.ReadFromUDP(buf)
		if err != nil {
			return
		}
		v, _, err := benc.Decode(buf[:k])
		d, ok := v.(benc.Dict)
		if err != nil || !ok {
			continue
		}
		if str(d, "y") != "q" {
			continue
		}
		q := Query{Seq: evlog.Next(), Type: str(d, "q"), From: from.String()}
		av, _ := d.Get("a")
		a, _ := av.(benc.Dict)
		q.InfoHash = str(a, "info_hash")
		if p, ok := a.Get("port"); ok {
			q.Port, _ = p.(int64)
		}
		n.mu.Lock()
		n.log = append(n.log, q)
		n.mu.Unlock()
		r := benc.Dict{{K: "id", V: string(n.id[:])}}
		switch q.Type {
		case "find_node":
			// the client library answers every reply with another find_node while its table is small and
			// ignores hosts that send more than 50 packets a minute: answer only the first two
			n.mu.Lock()
			n.findNodes++
			fn := n.findNodes
			n.mu.Unlock()
			if fn > 2 {
				continue
			}
			r = append(r, benc.KV{K: "nodes", V: ""})
		case "get_peers":
			r = append(r, benc.KV{K: "token", V: "reftoken"})
			var vals benc.List
			if n.Values != nil {
				for _, p := range n.Values(q.InfoHash) {
					ip4 := p.IP.To4()
					vals = append(vals, string([]byte{ip4[0], ip4[1], ip4[2], ip4[3], byte(p.Port >> 8), byte(p.Port)}))
				}
			}
			if len(vals) > 0 {
				r = append(r, benc.KV{K: "values", V: vals})
			} else {
				r = append(r, benc.KV{K: "nodes", V: ""})
			}
		}
		tv, _ := d.Get("t")
		resp := benc.Dict{{K: "r", V: r.Sorted()}, {K: "t", V: tv}, {K: "y", V: "r"}}
		n.conn.WriteToUDP(benc.Encode(resp.Sorted()), from)
	}
}
