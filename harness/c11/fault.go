// Upload counter under a transport fault: the connection accepts a byte budget and then fails the write
// (partial count returned with the error, as a reset connection does). The BlockUploaded total must equal the
// piece payload bytes that were actually accepted, wherever the fault falls - inside the 13 header bytes of a
// piece message, on the boundary, inside the payload.
package main

import (
	"fmt"
	"io"
	"net"
	"sync"
	"time"

	"github.com/cenkalti/rain/v2/internal/logger"
	"github.com/cenkalti/rain/v2/internal/peerconn/peerwriter"
	"github.com/cenkalti/rain/v2/internal/peerprotocol"
)

type budgetConn struct {
	net.Conn // never used for I/O: only to satisfy the interface
	mu       sync.Mutex
	budget   int
	got      []byte
	failed   bool
}

func (b *budgetConn) Write(p []byte) (int, error) {
	b.mu.Lock()
	defer b.mu.Unlock()
	if b.failed {
		return 0, io.ErrClosedPipe
	}
	if len(p) <= b.budget {
		b.budget -= len(p)
		b.got = append(b.got, p...)
		return len(p), nil
	}
	n := b.budget
	b.got = append(b.got, p[:n]...)
	b.budget = 0
	b.failed = true
	return n, io.ErrClosedPipe
}
func (b *budgetConn) SetWriteDeadline(time.Time) error { return nil }
func (b *budgetConn) Close() error                     { return nil }

func runFaultSequence(k int) {
	r := run.Rand("fault", k)
	used := map[peerprotocol.RequestMessage]bool{}
	var msgs []sent
	pieces := 0
	for len(msgs) < 40 && pieces < 1+r.Intn(3) {
		s := genMessage(r, false, used)
		if _, isChoke := s.msg.(peerprotocol.ChokeMessage); isChoke {
			continue
		}
		if s.piece != nil && s.pieceLen > 0 {
			pieces++
		}
		msgs = append(msgs, s)
	}
	if pieces == 0 {
		return
	}
	// the fault falls into a piece frame
	var pf []int
	for i, s := range msgs {
		if s.piece != nil && s.pieceLen > 0 {
			pf = append(pf, i)
		}
	}
	j := pf[r.Intn(len(pf))]
	fl := len(msgs[j].expect)
	offs := []int{0, 1, 3, 4, 5, 8, 12, 13, 14, 13 + msgs[j].pieceLen/2, fl - 1}
	off := offs[r.Intn(len(offs))]
	if off >= fl {
		off = fl - 1
	}
	budget := off
	var want int64
	for i := 0; i < j; i++ {
		budget += len(msgs[i].expect)
		want += int64(msgs[i].pieceLen)
	}
	if off > 13 {
		want += int64(off - 13)
	}
	run.Eval(1)
	dummy, other := net.Pipe()
	defer dummy.Close()
	defer other.Close()
	bc := &budgetConn{Conn: dummy, budget: budget}
	w := peerwriter.New(bc, logger.New("c11f"), 1000, true, nil)
	go w.Run()
	defer w.Stop()
	var uploaded int64
	var upMu sync.Mutex
	go func() {
		for {
			select {
			case m := <-w.Messages():
				if bu, ok := m.(peerwriter.BlockUploaded); ok {
					upMu.Lock()
					uploaded += int64(bu.Length)
					upMu.Unlock()
				}
			case <-w.Done():
				// drain what was reported before the writer stopped
				for {
					select {
					case m := <-w.Messages():
						if bu, ok := m.(peerwriter.BlockUploaded); ok {
							upMu.Lock()
							uploaded += int64(bu.Length)
							upMu.Unlock()
						}
						continue
					default:
					}
					return
				}
			}
		}
	}()
	for _, s := range msgs[:j+1] {
		if s.piece != nil {
			w.SendPiece(s.piece.RequestMessage, s.piece.Data)
		} else {
			w.SendMessage(s.msg)
		}
	}
	// wait until the transport has failed, then for the report of that last write
	for i := 0; i < 800; i++ {
		bc.mu.Lock()
		f := bc.failed
		bc.mu.Unlock()
		if f {
			break
		}
		time.Sleep(5 * time.Millisecond)
	}
	bc.mu.Lock()
	failed := bc.failed
	bc.mu.Unlock()
	if !failed {
		run.Count("fault_sequences_not_reaching_the_fault", 1)
		return
	}
	time.Sleep(30 * time.Millisecond)
	upMu.Lock()
	u := uploaded
	upMu.Unlock()
	if u != want {
		run.Violation("upload-counter", fmt.Sprintf("fault sequence %d: the transport accepted %d bytes and failed %d bytes into a piece message of %d payload bytes: BlockUploaded total %d, piece payload bytes accepted by the transport %d", k, budget, off, msgs[j].pieceLen, u, want), map[string]any{"sequence": k, "fault_offset_in_piece_frame": off})
		return
	}
	run.Count("fault_sequences_checked", 1)
	run.Distinct(fmt.Sprintf("fault|%d|%d|%d", j, off, msgs[j].pieceLen))
}
