// C11: wire encoding. The real peerwriter emits PRNG message sequences onto an
// in-memory connection; the raw bytes are compared with an independent reference
// encoding and, through a fragmenting pipe, fed to the client's own reader.
package main

import (
	"bytes"
	"fmt"
	"io"
	"math/rand"
	"net"
	"reflect"
	"runtime"
	"sort"
	"sync"
	"time"

	"github.com/cenkalti/rain/v2/internal/btconn"
	"github.com/cenkalti/rain/v2/internal/logger"
	"github.com/cenkalti/rain/v2/internal/peerconn/peerreader"
	"github.com/cenkalti/rain/v2/internal/peerconn/peerwriter"
	"github.com/cenkalti/rain/v2/internal/peerprotocol"
	"github.com/cenkalti/rain/v2/verifx/benc"
	"github.com/cenkalti/rain/v2/verifx/refwire"
	"github.com/cenkalti/rain/v2/verifx/vx"
)

var run *vx.Run

// fragConn splits every Write into chunks chosen by a PRNG pattern.
type fragConn struct {
	net.Conn
	r    *rand.Rand
	mode int
	mu   sync.Mutex
}

func (f *fragConn) Write(p []byte) (int, error) {
	f.mu.Lock()
	defer f.mu.Unlock()
	total := 0
	for len(p) > 0 {
		var n int
		switch f.mode {
		case 0:
			n = len(p)
		case 1:
			n = 1
		case 2:
			n = 1 + f.r.Intn(7)
		case 3:
			n = 1 + f.r.Intn(4000)
		default: // split inside prefix / id / header
			n = []int{1, 2, 3, 4, 5, 6, 9, 13, 17}[f.r.Intn(9)]
		}
		if n > len(p) {
			n = len(p)
		}
		m, err := f.Conn.Write(p[:n])
		total += m
		if err != nil {
			return total, err
		}
		p = p[n:]
	}
	return total, nil
}

type blockReader struct{ data []byte }

func (b blockReader) ReadAt(p []byte, off int64) (int, error) {
	n := copy(p, b.data)
	if n < len(p) {
		return n, io.EOF
	}
	return n, nil
}

var bounds = []uint32{0, 1, 2, 16383, 16384, 16385, 1 << 31, 1<<32 - 1, 1<<31 - 1, 65535, 65536}

func pick32(r *rand.Rand) uint32 {
	if r.Intn(3) == 0 {
		return r.Uint32()
	}
	return bounds[r.Intn(len(bounds))]
}

type sent struct {
	msg      peerprotocol.Message // what is handed to the writer (nil for piece)
	piece    *peerwriter.Piece
	expect   []byte // reference encoding
	want     any    // what the client's reader must deliver
	pieceLen int
	desc     string
}

func randStr(r *rand.Rand, n int) string {
	b := make([]byte, n)
	r.Read(b)
	return string(b)
}

func genMessage(r *rand.Rand, roundtrip bool, usedReq map[peerprotocol.RequestMessage]bool) sent {
	for {
		switch r.Intn(16) {
		case 0:
			return sent{msg: peerprotocol.ChokeMessage{}, expect: refwire.Encode(refwire.Msg{ID: refwire.Choke}), want: peerprotocol.ChokeMessage{}, desc: "choke"}
		case 1:
			return sent{msg: peerprotocol.UnchokeMessage{}, expect: refwire.Encode(refwire.Msg{ID: refwire.Unchoke}), want: peerprotocol.UnchokeMessage{}, desc: "unchoke"}
		case 2:
			return sent{msg: peerprotocol.InterestedMessage{}, expect: refwire.Encode(refwire.Msg{ID: refwire.Interested}), want: peerprotocol.InterestedMessage{}, desc: "interested"}
		case 3:
			return sent{msg: peerprotocol.NotInterestedMessage{}, expect: refwire.Encode(refwire.Msg{ID: refwire.NotInterested}), want: peerprotocol.NotInterestedMessage{}, desc: "notinterested"}
		case 4:
			i := pick32(r)
			return sent{msg: peerprotocol.HaveMessage{Index: i}, expect: refwire.Encode(refwire.Msg{ID: refwire.Have, Index: i}), want: peerprotocol.HaveMessage{Index: i}, desc: fmt.Sprintf("have %d", i)}
		case 5:
			nbits := []int{0, 1, 7, 8, 9, 64, 1000, 70000, r.Intn(70000)}[r.Intn(9)]
			d := make([]byte, (nbits+7)/8)
			r.Read(d)
			m := &peerprotocol.BitfieldMessage{Data: append([]byte(nil), d...)}
			return sent{msg: m, expect: refwire.Encode(refwire.Msg{ID: refwire.Bitfield, Data: d}), want: peerprotocol.BitfieldMessage{Data: d}, desc: fmt.Sprintf("bitfield %d bytes", len(d))}
		case 6, 7, 8:
			q := peerprotocol.RequestMessage{Index: pick32(r), Begin: pick32(r), Length: pick32(r)}
			rm := refwire.Msg{Index: q.Index, Begin: q.Begin, Length: q.Length}
			switch r.Intn(3) {
			case 0:
				if roundtrip && q.Length > 16384 { // the client's reader refuses request lengths > 16 KiB by design
					q.Length = uint32(r.Intn(16385))
					rm.Length = q.Length
				}
				rm.ID = refwire.Request
				return sent{msg: q, expect: refwire.Encode(rm), want: q, desc: fmt.Sprintf("request %v", q)}
			case 1:
				rm.ID = refwire.Cancel
				m := peerprotocol.CancelMessage{RequestMessage: q}
				return sent{msg: m, expect: refwire.Encode(rm), want: m, desc: fmt.Sprintf("cancel %v", q)}
			default:
				rm.ID = refwire.Reject
				m := peerprotocol.RejectMessage{RequestMessage: q}
				return sent{msg: m, expect: refwire.Encode(rm), want: m, desc: fmt.Sprintf("reject %v", q)}
			}
		case 9:
			ln := []int{0, 1, 16383, 16384, r.Intn(16385)}[r.Intn(5)]
			q := peerprotocol.RequestMessage{Index: pick32(r), Begin: pick32(r), Length: uint32(ln)}
			if len(usedReq) > 0 && r.Intn(4) == 0 {
				// a request the peer repeats: the writer answers it with a reject (by design) - no payload, nothing uploaded
				var keys []peerprotocol.RequestMessage
				for k := range usedReq {
					keys = append(keys, k)
				}
				sort.Slice(keys, func(i, j int) bool {
					if keys[i].Index != keys[j].Index {
						return keys[i].Index < keys[j].Index
					}
					if keys[i].Begin != keys[j].Begin {
						return keys[i].Begin < keys[j].Begin
					}
					return keys[i].Length < keys[j].Length
				})
				dq := keys[r.Intn(len(keys))]
				p := &peerwriter.Piece{Data: blockReader{make([]byte, dq.Length)}, RequestMessage: dq}
				m := peerprotocol.RejectMessage{RequestMessage: dq}
				return sent{piece: p, expect: refwire.Encode(refwire.Msg{ID: refwire.Reject, Index: dq.Index, Begin: dq.Begin, Length: dq.Length}), want: m, pieceLen: 0, desc: fmt.Sprintf("repeated request %v (reject)", dq)}
			}
			if usedReq[q] {
				continue
			}
			usedReq[q] = true
			d := make([]byte, ln)
			r.Read(d)
			p := &peerwriter.Piece{Data: blockReader{d}, RequestMessage: q}
			return sent{piece: p, expect: refwire.Encode(refwire.Msg{ID: refwire.Piece, Index: q.Index, Begin: q.Begin, Data: d}),
				want: peerprotocol.PieceMessage{Index: q.Index, Begin: q.Begin}, pieceLen: ln, desc: fmt.Sprintf("piece #%d begin %d len %d", q.Index, q.Begin, ln)}
		case 10:
			p := uint16(r.Intn(65536))
			return sent{msg: peerprotocol.PortMessage{Port: p}, expect: refwire.Encode(refwire.Msg{ID: refwire.Port, Port: p}), want: peerprotocol.PortMessage{Port: p}, desc: "port"}
		case 11:
			if r.Intn(2) == 0 {
				return sent{msg: peerprotocol.HaveAllMessage{}, expect: refwire.Encode(refwire.Msg{ID: refwire.HaveAll}), want: peerprotocol.HaveAllMessage{}, desc: "haveall"}
			}
			return sent{msg: peerprotocol.HaveNoneMessage{}, expect: refwire.Encode(refwire.Msg{ID: refwire.HaveNone}), want: peerprotocol.HaveNoneMessage{}, desc: "havenone"}
		case 12:
			i := pick32(r)
			m := peerprotocol.AllowedFastMessage{HaveMessage: peerprotocol.HaveMessage{Index: i}}
			return sent{msg: m, expect: refwire.Encode(refwire.Msg{ID: refwire.AllowedFast, Index: i}), want: m, desc: "allowedfast"}
		case 13: // extension handshake
			h := peerprotocol.ExtensionHandshakeMessage{M: map[string]uint8{}, V: randStr(r, r.Intn(40)), RequestQueue: r.Intn(1000)}
			nm := r.Intn(4)
			keys := []string{"ut_metadata", "ut_pex", "lt_donthave", "x" + randStr(r, 3)}
			for i := 0; i < nm; i++ {
				h.M[keys[r.Intn(len(keys))]] = uint8(r.Intn(256))
			}
			if r.Intn(2) == 0 {
				h.YourIP = randStr(r, []int{4, 16}[r.Intn(2)])
			}
			if r.Intn(2) == 0 {
				h.MetadataSize = r.Intn(1 << 24)
			}
			var md benc.Dict
			for k, v := range h.M {
				md = append(md, benc.KV{K: k, V: int64(v)})
			}
			d := benc.Dict{{K: "m", V: md.Sorted()}, {K: "v", V: h.V}, {K: "reqq", V: int64(h.RequestQueue)}}
			if h.YourIP != "" {
				d = append(d, benc.KV{K: "yourip", V: h.YourIP})
			}
			if h.MetadataSize != 0 {
				d = append(d, benc.KV{K: "metadata_size", V: int64(h.MetadataSize)})
			}
			m := peerprotocol.ExtensionMessage{ExtendedMessageID: 0, Payload: h}
			return sent{msg: m, expect: refwire.Encode(refwire.Msg{ID: refwire.Extended, ExtID: 0, Data: benc.Encode(d.Sorted())}), want: h, desc: "ext-handshake"}
		case 14: // metadata
			id := uint8(1)
			if !roundtrip {
				id = uint8(1 + r.Intn(255))
			}
			mm := peerprotocol.ExtensionMetadataMessage{Type: r.Intn(3), Piece: uint32(r.Intn(1 << 16))}
			if mm.Type == 1 {
				mm.TotalSize = r.Intn(1 << 25)
				mm.Data = make([]byte, []int{0, 1, 16384, r.Intn(16385)}[r.Intn(4)])
				r.Read(mm.Data)
			}
			d := benc.Dict{{K: "msg_type", V: int64(mm.Type)}, {K: "piece", V: int64(mm.Piece)}}
			if mm.TotalSize != 0 {
				d = append(d, benc.KV{K: "total_size", V: int64(mm.TotalSize)})
			}
			m := peerprotocol.ExtensionMessage{ExtendedMessageID: id, Payload: mm}
			w := mm
			if w.Data == nil {
				w.Data = []byte{}
			}
			return sent{msg: m, expect: refwire.Encode(refwire.Msg{ID: refwire.Extended, ExtID: id, Data: append(benc.Encode(d.Sorted()), mm.Data...)}), want: w, desc: fmt.Sprintf("metadata type %d len %d", mm.Type, len(mm.Data))}
		case 15: // pex
			id := uint8(2)
			if !roundtrip {
				id = uint8(1 + r.Intn(255))
			}
			pm := peerprotocol.ExtensionPEXMessage{Added: randStr(r, 6*r.Intn(201)), Dropped: randStr(r, 6*r.Intn(50))}
			d := benc.Dict{{K: "added", V: pm.Added}, {K: "dropped", V: pm.Dropped}}
			m := peerprotocol.ExtensionMessage{ExtendedMessageID: id, Payload: pm}
			return sent{msg: m, expect: refwire.Encode(refwire.Msg{ID: refwire.Extended, ExtID: id, Data: benc.Encode(d.Sorted())}), want: pm, desc: fmt.Sprintf("pex %d+%d", len(pm.Added)/6, len(pm.Dropped)/6)}
		}
	}
}

func normalise(v any) any {
	switch x := v.(type) {
	case peerprotocol.ExtensionHandshakeMessage:
		if x.M == nil {
			x.M = map[string]uint8{}
		}
		return x
	case peerprotocol.ExtensionMetadataMessage:
		if x.Data == nil {
			x.Data = []byte{}
		}
		return x
	case peerprotocol.BitfieldMessage:
		return peerprotocol.BitfieldMessage{Data: append([]byte{}, x.Data...)}
	}
	return v
}

func runSequence(k int) {
	if run.Enough() {
		return
	}
	r := run.Rand("seq", k)
	roundtrip := r.Intn(4) != 0
	mode := r.Intn(5)
	n := 1 + r.Intn(50)
	used := map[peerprotocol.RequestMessage]bool{}
	var msgs []sent
	sawPiece := false
	for len(msgs) < n {
		s := genMessage(r, roundtrip, used)
		if _, isChoke := s.msg.(peerprotocol.ChokeMessage); isChoke && sawPiece {
			continue // a choke discards queued piece messages by design; keep the expectation deterministic
		}
		if s.piece != nil {
			sawPiece = true
		}
		msgs = append(msgs, s)
	}
	var expect []byte
	var wantUpload int64
	for _, s := range msgs {
		expect = append(expect, s.expect...)
		wantUpload += int64(s.pieceLen)
	}
	run.Eval(1)
	a, b := net.Pipe()
	defer a.Close()
	defer b.Close()
	l := logger.New("c11")
	w := peerwriter.New(&fragConn{Conn: a, r: rand.New(rand.NewSource(r.Int63())), mode: mode}, l, 1000, true, nil)
	go w.Run()
	defer w.Stop()
	var uploaded int64
	var upMu sync.Mutex
	upDone := make(chan struct{})
	go func() {
		defer close(upDone)
		for {
			select {
			case m := <-w.Messages():
				if bu, ok := m.(peerwriter.BlockUploaded); ok {
					upMu.Lock()
					uploaded += int64(bu.Length)
					upMu.Unlock()
				}
			case <-w.Done():
				return
			}
		}
	}()
	// second hop: raw bytes -> fragmenting pipe -> the client's reader
	c, d := net.Pipe()
	defer c.Close()
	defer d.Close()
	rd := peerreader.New(d, l, 5*time.Second, 1<<20, nil)
	var got []any
	var gotMu sync.Mutex
	rdDone := make(chan struct{})
	if roundtrip {
		go rd.Run()
		go func() {
			defer close(rdDone)
			for {
				select {
				case m := <-rd.Messages():
					if p, ok := m.(peerreader.Piece); ok {
						cp := append([]byte{}, p.Buffer.Data...)
						p.Buffer.Release()
						m = struct {
							peerprotocol.PieceMessage
							Data []byte
						}{p.PieceMessage, cp}
					}
					gotMu.Lock()
					got = append(got, m)
					gotMu.Unlock()
				case <-rd.Done():
					return
				}
			}
		}()
		defer rd.Stop()
	}
	raw := make([]byte, 0, len(expect))
	rawDone := make(chan error, 1)
	go func() {
		buf := make([]byte, 8192)
		fc := &fragConn{Conn: c, r: rand.New(rand.NewSource(r.Int63())), mode: (mode + 2) % 5}
		for len(raw) < len(expect) {
			b.SetReadDeadline(time.Now().Add(4 * time.Second))
			n, err := b.Read(buf)
			raw = append(raw, buf[:n]...)
			if roundtrip && n > 0 {
				c.SetWriteDeadline(time.Now().Add(10 * time.Second))
				if _, werr := fc.Write(buf[:n]); werr != nil {
					rawDone <- nil
					return
				}
			}
			if err != nil {
				rawDone <- err
				return
			}
		}
		rawDone <- nil
	}()
	for _, s := range msgs {
		if s.piece != nil {
			w.SendPiece(s.piece.RequestMessage, s.piece.Data)
		} else {
			w.SendMessage(s.msg)
		}
	}
	err := <-rawDone
	descs := func() []string {
		var o []string
		for _, s := range msgs {
			o = append(o, s.desc)
		}
		return o
	}
	replay := map[string]any{"sequence": k, "messages": descs(), "fragmentation_mode": mode}
	if ne, isNet := err.(net.Error); isNet && ne.Timeout() && len(raw) < len(expect) && bytes.Equal(raw, expect[:len(raw)]) {
		// everything delivered so far is right; the rest did not arrive within the 4 s read watchdog.
		// A wall-clock timeout is not a verdict on the encoding: counted, judged in bulk at the end.
		run.Count("sequences_cut_short_by_read_watchdog", 1)
		return
	}
	if !bytes.Equal(raw, expect) {
		// locate the first differing frame
		off := 0
		which := "?"
		for _, s := range msgs {
			end := off + len(s.expect)
			if end > len(raw) || !bytes.Equal(raw[off:end], s.expect) {
				which = s.desc
				lim := end
				if lim > len(raw) {
					lim = len(raw)
				}
				if lim-off > 48 {
					lim = off + 48
				}
				replay["got_prefix"] = fmt.Sprintf("%x", raw[off:lim])
				e := s.expect
				if len(e) > 48 {
					e = e[:48]
				}
				replay["want_prefix"] = fmt.Sprintf("%x", e)
				break
			}
			off = end
		}
		kind := "encoding"
		run.Violation("wire-bytes:"+kindOf(which), fmt.Sprintf("sequence %d: emitted bytes differ from the reference encoding at message %q (read err=%v)", k, which, err), replay)
		_ = kind
		return
	}
	run.Count("messages", int64(len(msgs)))
	run.Count("bytes", int64(len(raw)))
	// upload counter: wait for the writer to report what it has written
	if wantUpload > 0 {
		for i := 0; i < 400; i++ {
			upMu.Lock()
			u := uploaded
			upMu.Unlock()
			if u >= wantUpload {
				break
			}
			time.Sleep(5 * time.Millisecond)
		}
	}
	time.Sleep(10 * time.Millisecond) // anything reported in excess arrives right after the last write
	upMu.Lock()
	u := uploaded
	upMu.Unlock()
	if u != wantUpload {
		run.Violation("upload-counter", fmt.Sprintf("sequence %d: BlockUploaded total %d, piece payload bytes on the wire %d", k, u, wantUpload), replay)
		return
	}
	run.Count("piece_payload_bytes", wantUpload)
	if roundtrip {
		// wait until the reader delivered everything or stopped
		for i := 0; i < 1000; i++ {
			gotMu.Lock()
			n := len(got)
			gotMu.Unlock()
			if n >= len(msgs) {
				break
			}
			select {
			case <-rd.Done():
				i = 1000
			default:
				time.Sleep(5 * time.Millisecond)
			}
		}
		gotMu.Lock()
		g := append([]any(nil), got...)
		gotMu.Unlock()
		for i, s := range msgs {
			if i >= len(g) {
				run.Violation("reader-roundtrip:"+kindOf(s.desc), fmt.Sprintf("sequence %d: the client's reader delivered %d of %d messages; first missing %q", k, len(g), len(msgs), s.desc), replay)
				return
			}
			want := normalise(s.want)
			have := normalise(g[i])
			if pm, isPiece := s.want.(peerprotocol.PieceMessage); isPiece && s.piece != nil {
				want = struct {
					peerprotocol.PieceMessage
					Data []byte
				}{pm, append([]byte{}, s.expect[13:]...)}
			}
			if !reflect.DeepEqual(want, have) {
				run.Violation("reader-roundtrip:"+kindOf(s.desc), fmt.Sprintf("sequence %d message %d %q: reader delivered %T %.120v, sent %T %.120v", k, i, s.desc, have, have, want, want), replay)
				return
			}
		}
		run.Count("roundtrip_messages", int64(len(msgs)))
	}
	run.Distinct(vx.Hash(expect, mode, roundtrip))
	if k < 2 {
		run.Sample(map[string]any{"messages": descs(), "wire_bytes": len(expect), "fragmentation_mode": mode, "through_reader": roundtrip})
	}
}

func kindOf(desc string) string {
	for i, c := range desc {
		if c == ' ' {
			return desc[:i]
		}
	}
	return desc
}

// handshake layout through btconn.Dial / btconn.Accept against a reference endpoint
func runHandshake(k int) {
	r := run.Rand("hs", k)
	var ih, id, pid [20]byte
	var ext, pext [8]byte
	r.Read(ih[:])
	r.Read(id[:])
	r.Read(pid[:])
	r.Read(ext[:])
	r.Read(pext[:])
	run.Eval(1)
	want := refwire.Handshake(ext, ih, id)
	if k%2 == 0 {
		ln, err := net.Listen("tcp", "127.0.0.1:0")
		if err != nil {
			run.Inconclusive("listen: " + err.Error())
			return
		}
		defer ln.Close()
		gotC := make(chan []byte, 1)
		go func() {
			c, err := ln.Accept()
			if err != nil {
				gotC <- nil
				return
			}
			defer c.Close()
			b := make([]byte, 68)
			c.SetDeadline(time.Now().Add(10 * time.Second))
			_, err = io.ReadFull(c, b)
			if err != nil {
				gotC <- nil
				return
			}
			c.Write(refwire.Handshake(pext, ih, pid))
			gotC <- b
			time.Sleep(50 * time.Millisecond)
		}()
		conn, _, gext, gid, err := btconn.Dial(ln.Addr(), 5*time.Second, 5*time.Second, false, false, ext, ih, id, make(chan struct{}))
		got := <-gotC
		if got == nil {
			run.Inconclusive("handshake capture failed")
			return
		}
		if !bytes.Equal(got, want) {
			run.Violation("handshake-bytes:dial", fmt.Sprintf("handshake %d: Dial wrote %x, reference %x", k, got, want), nil)
			return
		}
		if err != nil || gext != pext || gid != pid {
			run.Violation("handshake-parse:dial", fmt.Sprintf("handshake %d: Dial returned ext %x id %x err %v, peer sent ext %x id %x", k, gext, gid, err, pext, pid), nil)
			return
		}
		conn.Close()
	} else {
		a, b := net.Pipe()
		defer a.Close()
		defer b.Close()
		resC := make(chan string, 1)
		go func() {
			_, _, gext, gid, gih, err := btconn.Accept(a, 5*time.Second, nil, false, func(h [20]byte) bool { return h == ih }, ext, id)
			if err != nil || gext != pext || gid != pid || gih != ih {
				resC <- fmt.Sprintf("Accept returned ext %x id %x ih %x err %v", gext, gid, gih, err)
				return
			}
			resC <- ""
		}()
		b.SetDeadline(time.Now().Add(10 * time.Second))
		hs := refwire.Handshake(pext, ih, pid)
		// a real peer sends its id after seeing ours or at once; send in two parts with fragmentation
		go func() {
			fc := &fragConn{Conn: b, r: rand.New(rand.NewSource(int64(k))), mode: k % 5}
			fc.Write(hs)
		}()
		got := make([]byte, 68)
		if _, err := io.ReadFull(b, got); err != nil {
			run.Violation("handshake-bytes:accept", fmt.Sprintf("handshake %d: Accept wrote no full handshake: %v", k, err), nil)
			return
		}
		if !bytes.Equal(got, want) {
			run.Violation("handshake-bytes:accept", fmt.Sprintf("handshake %d: Accept wrote %x, reference %x", k, got, want), nil)
			return
		}
		if s := <-resC; s != "" {
			run.Violation("handshake-parse:accept", fmt.Sprintf("handshake %d: %s", k, s), nil)
			return
		}
	}
	run.Count("handshakes", 1)
	run.Distinct(vx.Hash("hs", ih, id, ext, k%2))
}

func main() {
	run = vx.Begin("C11", "exploration",
		"PRNG message sequences (1-50 messages of every kind, boundary field values, bitfields 0-70000 bits, metadata payloads 0-16384, PEX 0-200 entries) written by the real peerwriter under 5 fragmentation patterns; raw bytes compared with an independent reference encoding; 3/4 of the sequences are forwarded through a second fragmenting pipe into the client's reader; BlockUploaded sum vs piece payload bytes, also when the transport fails a write at a chosen byte offset inside a piece message (header, boundary, payload); handshake bytes via Dial/Accept. distinct = distinct (byte stream, fragmentation, path)")
	logger.Disable()
	n := run.N(6000, 400000)
	vx.Parallel(n, runtime.NumCPU()*2, func(k int) {
		pt, ok := vx.Try(func() { runSequence(k) })
		if !ok {
			run.Violation("panic", fmt.Sprintf("sequence %d: panic %s", k, pt), map[string]any{"sequence": k})
		}
	})
	if cut := run.GetCount("sequences_cut_short_by_read_watchdog"); cut > int64(n/100+3) {
		run.Violation("writer-stalls", fmt.Sprintf("%d of %d sequences were not written out completely within the 4 s read watchdog although every byte delivered was right", cut, n), nil)
	}
	vx.Parallel(run.N(600, 30000), 16, func(k int) {
		pt, ok := vx.Try(func() { runFaultSequence(k) })
		if !ok {
			run.Violation("panic", fmt.Sprintf("fault sequence %d: panic %s", k, pt), map[string]any{"fault_sequence": k})
		}
	})
	nh := run.N(300, 20000)
	vx.Parallel(nh, 16, func(k int) {
		pt, ok := vx.Try(func() { runHandshake(k) })
		if !ok {
			run.Violation("panic-handshake", fmt.Sprintf("handshake %d: panic %s", k, pt), nil)
		}
	})
	run.Assume("a sequence whose correct prefix is cut short by the 4 s read watchdog is not judged individually (wall-clock); more than 1% of such sequences is reported as writer-stalls")
	run.Assume("reference encodings are written from BEP 3/6/9/10/11; bencoded dictionaries are expected in canonical (sorted-key) form")
	run.Finish(200)
}
