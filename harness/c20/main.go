// C20: data races and lock-ups under concurrent use of the public API and RPC.
// The parent runs stress children built with -race (halt_on_error=0) and parses
// their race reports; every API / RPC call in a child runs under a call watchdog.
package main

import (
	"bytes"
	"fmt"
	"math/rand"
	"net"
	"os"
	"path/filepath"
	"regexp"
	"runtime"
	"sort"
	"strings"
	"sync"
	"sync/atomic"
	"time"

	"github.com/cenkalti/rain/v2/rainrpc"
	"github.com/cenkalti/rain/v2/torrent"
	"github.com/cenkalti/rain/v2/verifx/gen"
	"github.com/cenkalti/rain/v2/verifx/memstore"
	"github.com/cenkalti/rain/v2/verifx/reftracker"
	"github.com/cenkalti/rain/v2/verifx/sess"
	"github.com/cenkalti/rain/v2/verifx/vx"
)

var run *vx.Run

// ------------------------------------------------------------------ child: the workload

type callTable struct {
	mu    sync.Mutex
	calls map[int64]*callRec
	next  int64
	count map[string]int64
}
type callRec struct {
	name  string
	since time.Time
}

func (c *callTable) do(name string, f func()) {
	c.mu.Lock()
	c.next++
	id := c.next
	c.calls[id] = &callRec{name, time.Now()}
	c.count[name]++
	c.mu.Unlock()
	f()
	c.mu.Lock()
	delete(c.calls, id)
	c.mu.Unlock()
}

func (c *callTable) oldest() (string, time.Duration) {
	c.mu.Lock()
	defer c.mu.Unlock()
	var n string
	var d time.Duration
	for _, r := range c.calls {
		if x := time.Since(r.since); x > d {
			n, d = r.name, x
		}
	}
	return n, d
}

var rpcPort atomic.Int64

func stress(rep int) {
	seed := vx.Mix(run.Seed, "stress", rep)
	r := rand.New(rand.NewSource(seed))
	label := fmt.Sprintf("stress-%d", rep)
	run.CaseStart(label)
	dur := 6 * time.Second
	if run.Thorough() {
		dur = 40 * time.Second
	}
	dir := filepath.Join(run.Work, label)
	os.MkdirAll(dir, 0o755)
	defer os.RemoveAll(dir)
	ct := &callTable{calls: map[int64]*callRec{}, count: map[string]int64{}}

	// the tracker answers every announce with a short interval and a (refusing) peer address, so that announcers
	// hand responses to the torrent loops throughout the run while Trackers() is being polled
	refused := &net.TCPAddr{IP: net.ParseIP(sess.NextIP()), Port: 9}
	tr, _ := reftracker.NewHTTP("tracker", sess.NextIP(), func(a reftracker.Announce) reftracker.Reply {
		return reftracker.Reply{Kind: "ok", Interval: reftracker.I(1), Peers: []*net.TCPAddr{refused}}
	})
	defer tr.Close()
	trURL := fmt.Sprintf("http://%s/announce", tr.Addr())

	mk := func(name string, rpc bool, limit int64) (*torrent.Session, torrent.Config, *memstore.Provider, *rainrpc.Client) {
		prov := memstore.NewProvider(filepath.Join(dir, name, "m"))
		port := 41000 + int(rpcPort.Add(1)*7%9000) + os.Getpid()%5000
		s, cfg, err := sess.New(sess.Opts{Dir: filepath.Join(dir, name), Storage: prov, Mutate: func(c *torrent.Config) {
			c.ResumeWriteInterval = 5 * time.Millisecond
			c.RPCEnabled = rpc
			c.RPCHost = c.Host
			c.RPCPort = port
			c.RPCShutdownTimeout = time.Second
			c.SpeedLimitDownload = limit
			c.PEXEnabled = true
			c.TrackerMinAnnounceInterval = 200 * time.Millisecond
			c.PortEnd = c.PortBegin + 60
		}})
		if err != nil {
			run.Inconclusive(label + ": session: " + err.Error())
			return nil, cfg, nil, nil
		}
		var cl *rainrpc.Client
		if rpc {
			cl = rainrpc.NewClient(fmt.Sprintf("http://%s:%d", cfg.Host, port))
			cl.SetTimeout(30 * time.Second)
		}
		return s, cfg, prov, cl
	}
	a, cfgA, provA, clA := mk("a", true, 0)
	b, cfgB, _, clB := mk("b", true, 96)
	if a == nil || b == nil {
		run.CaseEnd(label)
		return
	}
	_ = cfgB
	// torrents: A seeds (content planted), B leeches slowly so that transfers last for the whole run
	type tor struct {
		l     *gen.Layout
		bytes []byte
		ih    [20]byte
		id    string
	}
	var tors []*tor
	for i := 0; i < 3; i++ {
		l := &gen.Layout{Name: fmt.Sprintf("s%d-%d", rep, i), PieceLen: 32768, Seed: seed + int64(i), Single: i != 1, Files: []gen.FileSpec{{Length: int64(400000 + r.Intn(400000))}}}
		if i == 1 {
			l.Files = []gen.FileSpec{{Path: []string{"d", "a"}, Length: 200000}, {Path: []string{"d", "b"}, Length: int64(100000 + r.Intn(200000))}}
		}
		truth := l.Truth()
		info := l.InfoBytes(truth)
		t := &tor{l: l, bytes: gen.TorrentBytes(info, [][]string{{trURL}}, nil), ih: gen.InfoHash(info), id: fmt.Sprintf("t%d", i)}
		st := provA.Get(t.id)
		for fi := range l.Files {
			off, end := l.FileRange(fi)
			st.Put(filepath.FromSlash(l.JoinedPath(fi)), truth[off:end])
		}
		ta, err := a.AddTorrent(bytes.NewReader(t.bytes), &torrent.AddTorrentOptions{ID: t.id})
		if err != nil {
			continue
		}
		tb, err := b.AddTorrent(bytes.NewReader(t.bytes), &torrent.AddTorrentOptions{ID: t.id})
		if err != nil {
			continue
		}
		sess.WaitStatus(ta, 5*time.Second, torrent.Seeding)
		tb.AddPeer(sess.ListenAddr(cfgA, ta))
		tors = append(tors, t)
	}
	run.Eval(1)
	stop := make(chan struct{})
	// call watchdog
	hung := make(chan string, 1)
	go func() {
		for {
			select {
			case <-stop:
				return
			case <-time.After(500 * time.Millisecond):
			}
			if n, d := ct.oldest(); d > 25*time.Second && vx.CanaryWorstSince(time.Now().Add(-30*time.Second)) < time.Second {
				select {
				case hung <- n:
				default:
				}
				return
			}
		}
	}()
	sessions := []*torrent.Session{a, b}
	clients := []*rainrpc.Client{clA, clB}
	var extraN atomic.Int64
	// handles of the torrents workers add and remove: other workers call getters on them while they are being removed
	var exMu sync.Mutex
	var extras []*torrent.Torrent
	addExtra := func(t *torrent.Torrent) {
		exMu.Lock()
		extras = append(extras, t)
		if len(extras) > 24 {
			extras = extras[len(extras)-24:]
		}
		exMu.Unlock()
	}
	pickExtra := func(r *rand.Rand) *torrent.Torrent {
		exMu.Lock()
		defer exMu.Unlock()
		if len(extras) == 0 {
			return nil
		}
		return extras[r.Intn(len(extras))]
	}
	var wg sync.WaitGroup
	// two pollers keep a tracker-list request pending at the transferring torrents (the request is served by the
	// torrent loop through a round trip into every announcer's loop)
	for pi := 0; pi < 2; pi++ {
		wg.Add(1)
		go func(pi int) {
			defer wg.Done()
			for i := 0; ; i++ {
				select {
				case <-stop:
					return
				default:
				}
				if len(tors) == 0 {
					return
				}
				if t := sessions[(pi+i)%2].GetTorrent(tors[i%len(tors)].id); t != nil {
					ct.do("Torrent.Trackers", func() { t.Trackers() })
				}
				time.Sleep(time.Millisecond)
			}
		}(pi)
	}
	nworkers := 8 + r.Intn(9)
	for w := 0; w < nworkers; w++ {
		wg.Add(1)
		wr := rand.New(rand.NewSource(r.Int63()))
		go func(w int) {
			defer wg.Done()
			var mine []string // torrents this worker added
			for {
				select {
				case <-stop:
					return
				default:
				}
				si := wr.Intn(2)
				s, cl := sessions[si], clients[si]
				if len(tors) == 0 {
					return
				}
				tt := tors[wr.Intn(len(tors))]
				t := s.GetTorrent(tt.id)
				if t == nil {
					continue
				}
				op := wr.Intn(44)
				if op <= 10 && wr.Intn(3) == 0 {
					// a getter on a torrent that another worker may be removing right now
					if x := pickExtra(wr); x != nil {
						t = x
					}
				}
				switch op {
				case 0, 1, 2:
					ct.do("Torrent.Stats", func() { t.Stats() })
				case 3:
					ct.do("Torrent.Peers", func() { t.Peers() })
				case 4:
					ct.do("Torrent.Trackers", func() { t.Trackers() })
				case 5:
					ct.do("Torrent.Webseeds", func() { t.Webseeds() })
				case 6:
					ct.do("Torrent.Files", func() { t.Files() })
				case 7:
					ct.do("Torrent.FileStats", func() { t.FileStats() })
				case 8:
					ct.do("Torrent.Magnet", func() { t.Magnet() })
				case 9:
					ct.do("Torrent.Torrent", func() { t.Torrent() })
				case 10:
					ct.do("Torrent.Name/Port/InfoHash/AddedAt/Dir/ID", func() { t.Name(); t.Port(); t.InfoHash(); t.AddedAt(); t.Dir(); t.ID() })
				case 11:
					ct.do("Torrent.AddPeer(ip)", func() { t.AddPeer(fmt.Sprintf("127.9.%d.%d:%d", wr.Intn(250), 1+wr.Intn(250), 1024+wr.Intn(60000))) })
				case 12:
					ct.do("Torrent.AddPeer(hostname)", func() { t.AddPeer(fmt.Sprintf("localhost:%d", 1024+wr.Intn(60000))) })
				case 13:
					ct.do("Torrent.AddTracker", func() { t.AddTracker(fmt.Sprintf("%s?w=%d", trURL, wr.Intn(4))) })
				case 14, 15:
					ct.do("Torrent.Start", func() { t.Start() })
				case 16:
					ct.do("Torrent.Stop", func() { t.Stop() })
				case 17:
					ct.do("Torrent.Verify", func() { t.Verify() })
				case 18:
					ct.do("Torrent.Announce", func() { t.Announce() })
				case 19:
					ct.do("Session.ListTorrents", func() { s.ListTorrents() })
				case 20:
					ct.do("Session.Stats", func() { s.Stats() })
				case 21:
					ct.do("Session.AddTorrent", func() {
						n := extraN.Add(1)
						l := &gen.Layout{Name: fmt.Sprintf("x%d-%d", rep, n), PieceLen: 16384, Seed: seed + 100 + n, Single: true, Files: []gen.FileSpec{{Length: 20000}}}
						id := fmt.Sprintf("x%d", n)
						if nt, err := s.AddTorrent(bytes.NewReader(gen.TorrentBytes(l.InfoBytes(l.Truth()), [][]string{{trURL}}, nil)), &torrent.AddTorrentOptions{ID: id, Stopped: wr.Intn(2) == 0}); err == nil {
							mine = append(mine, fmt.Sprintf("%d:%s", si, id))
							addExtra(nt)
						}
					})
				case 22:
					ct.do("Session.AddURI(magnet)", func() {
						n := extraN.Add(1)
						id := fmt.Sprintf("m%d", n)
						if nt, err := s.AddURI(fmt.Sprintf("magnet:?xt=urn:btih:%x&tr=%s", tt.ih, trURL), &torrent.AddTorrentOptions{ID: id, Stopped: wr.Intn(2) == 0}); err == nil {
							mine = append(mine, fmt.Sprintf("%d:%s", si, id))
							addExtra(nt)
						}
					})
				case 23, 24:
					if len(mine) > 0 {
						x := mine[len(mine)-1]
						mine = mine[:len(mine)-1]
						var xs int
						var id string
						fmt.Sscanf(x, "%d:%s", &xs, &id)
						// getters keep running on the handle while the torrent is being removed
						h := sessions[xs].GetTorrent(id)
						stopG := make(chan struct{})
						var gw sync.WaitGroup
						if h != nil && wr.Intn(2) == 0 {
							for g := 0; g < 2; g++ {
								gw.Add(1)
								go func(g int) {
									defer gw.Done()
									for {
										select {
										case <-stopG:
											return
										default:
										}
										ct.do("getters during RemoveTorrent", func() {
											if g == 0 {
												h.FileStats()
												h.Magnet()
											} else {
												h.Files()
												h.Torrent()
											}
										})
									}
								}(g)
							}
						}
						ct.do("Session.RemoveTorrent", func() { sessions[xs].RemoveTorrent(id, wr.Intn(2) == 0) })
						close(stopG)
						gw.Wait()
					}
				case 25:
					if wr.Intn(6) == 0 {
						ct.do("Session.StartAll", func() { s.StartAll() })
					}
				case 26:
					if wr.Intn(12) == 0 {
						ct.do("Session.StopAll", func() { s.StopAll() })
						ct.do("Session.StartAll", func() { s.StartAll() })
					}
				case 27:
					if wr.Intn(6) == 0 {
						ct.do("Session.CompactDatabase", func() {
							p := filepath.Join(dir, fmt.Sprintf("compact-%d-%d.db", w, wr.Int()))
							s.CompactDatabase(p)
							os.Remove(p)
						})
					}
				case 28:
					if wr.Intn(6) == 0 {
						ct.do("Session.CleanDatabase", func() { s.CleanDatabase() })
					}
				case 29:
					ct.do("rpc.ListTorrents", func() { cl.ListTorrents() })
				case 30:
					ct.do("rpc.GetTorrentStats", func() { cl.GetTorrentStats(tt.id) })
				case 31:
					ct.do("rpc.GetSessionStats", func() { cl.GetSessionStats() })
				case 32:
					ct.do("rpc.GetTorrentPeers", func() { cl.GetTorrentPeers(tt.id) })
				case 33:
					ct.do("rpc.GetTorrentTrackers", func() { cl.GetTorrentTrackers(tt.id) })
				case 34:
					ct.do("rpc.GetTorrentFiles/FileStats/Webseeds", func() { cl.GetTorrentFiles(tt.id); cl.GetTorrentFileStats(tt.id); cl.GetTorrentWebseeds(tt.id) })
				case 35:
					ct.do("rpc.GetMagnet/GetTorrent", func() { cl.GetMagnet(tt.id); cl.GetTorrent(tt.id) })
				case 36:
					ct.do("rpc.AddPeer/AddTracker", func() {
						cl.AddPeer(tt.id, fmt.Sprintf("127.9.9.%d:%d", 1+wr.Intn(250), 2000+wr.Intn(1000)))
						cl.AddTracker(tt.id, fmt.Sprintf("%s?r=%d", trURL, wr.Intn(3)))
					})
				case 37:
					ct.do("rpc.StartTorrent/StopTorrent", func() {
						if wr.Intn(3) == 0 {
							cl.StopTorrent(tt.id)
						}
						cl.StartTorrent(tt.id)
					})
				case 38:
					ct.do("rpc.AnnounceTorrent/VerifyTorrent", func() {
						cl.AnnounceTorrent(tt.id)
						if wr.Intn(4) == 0 {
							cl.VerifyTorrent(tt.id)
						}
					})
				case 39:
					// move one of this worker's own torrents to the other session
					if len(mine) > 0 && wr.Intn(3) == 0 {
						x := mine[len(mine)-1]
						var xs int
						var id string
						fmt.Sscanf(x, "%d:%s", &xs, &id)
						if strings.HasPrefix(id, "x") {
							mine = mine[:len(mine)-1]
							other := 1 - xs
							target := fmt.Sprintf("%s:%d", map[int]string{0: cfgA.Host, 1: cfgB.Host}[other], map[int]int{0: cfgA.RPCPort, 1: cfgB.RPCPort}[other])
							ct.do("rpc.MoveTorrent", func() {
								if err := clients[xs].MoveTorrent(id, target); err == nil {
									mine = append(mine, fmt.Sprintf("%d:%s", other, id))
								} else {
									mine = append(mine, x)
								}
							})
						}
					}
				case 40:
					ct.do("rpc.AddTorrent/RemoveTorrent", func() {
						n := extraN.Add(1)
						l := &gen.Layout{Name: fmt.Sprintf("r%d-%d", rep, n), PieceLen: 16384, Seed: seed + 500 + n, Single: true, Files: []gen.FileSpec{{Length: 30000}}}
						if rt, err := cl.AddTorrent(bytes.NewReader(gen.TorrentBytes(l.InfoBytes(l.Truth()), nil, nil)), &rainrpc.AddTorrentOptions{Stopped: wr.Intn(2) == 0}); err == nil {
							cl.GetTorrentStats(rt.ID)
							cl.RemoveTorrent(rt.ID, false)
						}
					})
				default:
					time.Sleep(time.Duration(wr.Intn(3)) * time.Millisecond)
				}
			}
		}(w)
	}
	var hungName string
	select {
	case <-time.After(dur):
	case hungName = <-hung:
	}
	close(stop)
	if hungName == "" {
		// workers finish their current call; a call that never returns is a lock-up too
		fin := make(chan struct{})
		go func() { wg.Wait(); close(fin) }()
		select {
		case <-fin:
		case <-time.After(40 * time.Second):
			hungName, _ = ct.oldest()
		}
	}
	if hungName != "" {
		buf := make([]byte, 8<<20)
		n := runtime.Stack(buf, true)
		fmt.Fprintf(os.Stderr, "HUNG-CALL %s\n%s\n", hungName, buf[:n])
		run.Violation("call-does-not-return:"+hungName, fmt.Sprintf("%s: %s did not return within 25 s while the process was otherwise live (goroutine dump in the child log)", label, hungName), nil)
		run.CaseEnd(label)
		run.Finish(0)
	}
	wg.Wait()
	done := make(chan struct{})
	go func() {
		a.Close()
		b.Close()
		close(done)
	}()
	select {
	case <-done:
	case <-time.After(40 * time.Second):
		buf := make([]byte, 8<<20)
		n := runtime.Stack(buf, true)
		fmt.Fprintf(os.Stderr, "HUNG-CALL Session.Close\n%s\n", buf[:n])
		run.Violation("call-does-not-return:Session.Close", label+": Session.Close did not return within 40 s", nil)
		run.CaseEnd(label)
		run.Finish(0)
	}
	ct.mu.Lock()
	total := int64(0)
	for n, c := range ct.count {
		run.Count("calls:"+n, c)
		total += c
	}
	ct.mu.Unlock()
	run.Count("api_calls", total)
	run.Count("stress_runs", 1)
	run.CaseEnd(label)
}

// ------------------------------------------------------------------ parent: race report parser

var hdrRe = regexp.MustCompile(`^(Read|Write|Previous read|Previous write|Atomic read|Atomic write|Previous atomic read|Previous atomic write) at 0x[0-9a-f]+ by (goroutine \d+|main goroutine):`)
var fnRe = regexp.MustCompile(`^  ([^\s].*)\(\)$`)

const rainPfx = "github.com/cenkalti/rain/v2/"

type raceBlock struct {
	stacks [][]string // the two access stacks, innermost first
	text   string
}

func parseRaces(log string) []raceBlock {
	var out []raceBlock
	parts := strings.Split(log, "WARNING: DATA RACE")
	for _, p := range parts[1:] {
		if i := strings.Index(p, "\n=================="); i >= 0 {
			p = p[:i]
		}
		rb := raceBlock{text: p}
		var cur []string
		in := false
		flush := func() {
			if in {
				rb.stacks = append(rb.stacks, cur)
			}
			cur, in = nil, false
		}
		for _, line := range strings.Split(p, "\n") {
			switch {
			case hdrRe.MatchString(line):
				flush()
				in = true
			case strings.HasPrefix(line, "Goroutine ") || strings.TrimSpace(line) == "":
				flush()
			case in:
				if m := fnRe.FindStringSubmatch(line); m != nil {
					cur = append(cur, m[1])
				}
			}
		}
		flush()
		if len(rb.stacks) >= 2 {
			rb.stacks = rb.stacks[:2]
			out = append(out, rb)
		}
	}
	return out
}

func short(fn string) string {
	fn = strings.TrimPrefix(fn, rainPfx)
	// strip closure suffixes
	fn = regexp.MustCompile(`\.func\d+(\.\d+)*$`).ReplaceAllString(fn, "")
	return fn
}

// side = outermost rain entry point > innermost rain function of one access stack.
// The detector's shadow stack keeps stale frames below the goroutine's real entry, so the
// stack is cut at the first harness frame, goroutine wrapper or HTTP server frame.
func side(st []string) string {
	var inner, outer string
	for _, f := range st {
		if strings.HasPrefix(f, "main.") || strings.Contains(f, "/verifx/") || f == "net/http.(*conn).serve" {
			break
		}
		if strings.HasPrefix(f, rainPfx) {
			if inner == "" {
				inner = f
			}
			outer = f
		}
		if strings.Contains(f, ".gowrap") {
			break
		}
	}
	if inner == "" {
		if len(st) > 0 {
			return "(outside rain) " + st[0]
		}
		return "(empty)"
	}
	if inner == outer {
		return short(inner)
	}
	return short(outer) + ">" + short(inner)
}

func (rb raceBlock) sig() string {
	a, b := side(rb.stacks[0]), side(rb.stacks[1])
	if a > b {
		a, b = b, a
	}
	return a + " || " + b
}

func main() {
	run = vx.Begin("C20", "exploration",
		"stress children built with -race (halt_on_error=0): two sessions with RPC servers, 3 torrents transferring A->B under a download limit, ResumeWriteInterval 5 ms, 8-16 client goroutines issuing PRNG mixes of 40 API / RPC entry points (stats, peers, trackers, webseeds, files, file stats, magnet, torrent, getters, add peer by IP and host name, add tracker, start, stop, verify, announce, list, session stats, add torrent / magnet, remove, start all / stop all, compact, clean, move between sessions over RPC), a reference tracker answering every announce with a 1 s interval and a peer address, two goroutines polling Trackers() of the transferring torrents throughout; race reports are parsed from the child logs and keyed by the unordered pair (outermost rain entry > innermost rain function) of the two access stacks; every call runs under a 25 s call watchdog guarded by the load canary. distinct = distinct (entry point) call kinds exercised + distinct race signatures")
	vx.StartCanary()
	if vx.ChildRole() == "stress" {
		torrent.DisableLogging()
		lo, hi := vx.ChildRange()
		for k := lo; k < hi; k++ {
			stress(k)
		}
		run.Finish(0)
	}
	bin := os.Getenv("VX_RACE_BIN")
	if bin == "" {
		run.Inconclusive("no race-instrumented binary was built")
		run.Finish(1)
	}
	nchild := run.N(4, 48)
	par := 4
	var mu sync.Mutex
	seen := map[string]int{}
	var wg sync.WaitGroup
	sem := make(chan struct{}, par)
	for c := 0; c < nchild; c++ {
		wg.Add(1)
		sem <- struct{}{}
		go func(c int) {
			defer wg.Done()
			defer func() { <-sem }()
			res := run.SpawnBin(bin, "stress", []string{fmt.Sprintf("VX_RANGE=%d-%d", c, c+1), "GORACE=halt_on_error=0 exitcode=0 history_size=3"}, 8*time.Minute)
			b, _ := os.ReadFile(res.LogPath)
			logs := string(b)
			blocks := parseRaces(logs)
			run.Count("race_report_blocks", int64(len(blocks)))
			for _, rb := range blocks {
				s := rb.sig()
				mu.Lock()
				seen[s]++
				first := seen[s] == 1
				mu.Unlock()
				if first {
					text := rb.text
					if len(text) > 6000 {
						text = text[:6000]
					}
					run.Violation("race:"+s, fmt.Sprintf("stress-%d: data race between %s", c, s), map[string]any{"report": text})
					run.Distinct("race|" + s)
				}
			}
			if strings.Contains(logs, "HUNG-CALL") {
				run.KeepLog(res, fmt.Sprintf("hung-%d.log", c))
			}
			if res.TimedOut {
				p := run.KeepLog(res, fmt.Sprintf("timeout-%d.log", c))
				run.Inconclusive(fmt.Sprintf("stress-%d: child watchdog fired (log %s)", c, p))
			} else if res.Crashed && !strings.Contains(logs, "HUNG-CALL") {
				p := run.KeepLog(res, fmt.Sprintf("crash-%d.log", c))
				if strings.Contains(res.PanicText, "all goroutines are asleep") {
					run.Violation("deadlock:all-goroutines-asleep", fmt.Sprintf("stress-%d: %s (log %s)", c, res.PanicText, p), nil)
				} else {
					run.Violation("crash:"+vx.NormalisePanic(res.PanicText)+"|"+res.RainFrame, fmt.Sprintf("stress-%d: client crashed during the stress workload: %s at %s (log %s)", c, res.PanicText, res.RainFrame, p), map[string]any{"tail": res.Tail})
				}
			}
		}(c)
	}
	wg.Wait()
	var sigs []string
	for s, n := range seen {
		sigs = append(sigs, fmt.Sprintf("%s x%d", s, n))
	}
	sort.Strings(sigs)
	run.Set("race_signatures_seen", sigs)
	for _, k := range []string{"Torrent.Stats", "Torrent.Peers", "Torrent.Trackers", "Torrent.Files", "Torrent.AddPeer(ip)", "Torrent.AddPeer(hostname)", "Torrent.AddTracker", "Torrent.Start", "Torrent.Stop", "Torrent.Verify", "Torrent.Announce", "Session.AddTorrent", "Session.RemoveTorrent", "rpc.MoveTorrent", "rpc.GetTorrentStats"} {
		if run.GetCount("calls:"+k) > 0 {
			run.Distinct("entry|" + k)
		}
	}
	run.Assume("absence of reports means no race was observed in these executions; the detector sees only interleavings that occur")
	run.Finish(10)
}

var _ = net.IPv4len
