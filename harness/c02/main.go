// C02: piece/file geometry against a flat byte-array model.
package main

import (
	"bytes"
	"fmt"
	"io"
	"net"
	"net/http"
	"os"
	"path/filepath"
	"runtime"
	"sort"
	"strconv"
	"strings"
	"sync"
	"time"

	"github.com/cenkalti/rain/v2/internal/allocator"
	"github.com/cenkalti/rain/v2/internal/bufferpool"
	"github.com/cenkalti/rain/v2/internal/logger"
	"github.com/cenkalti/rain/v2/internal/metainfo"
	"github.com/cenkalti/rain/v2/internal/piece"
	"github.com/cenkalti/rain/v2/internal/storage/filestorage"
	"github.com/cenkalti/rain/v2/internal/urldownloader"
	"github.com/cenkalti/rain/v2/internal/verifier"
	"github.com/cenkalti/rain/v2/verifx/gen"
	"github.com/cenkalti/rain/v2/verifx/memstore"
	"github.com/cenkalti/rain/v2/verifx/vx"
)

var run *vx.Run

type viol struct {
	sig, what string
}

// classify a layout for known-finding signatures: which padding shapes it has.
func layoutClass(l *gen.Layout) string {
	pl := int64(l.PieceLen)
	var off int64
	cls := map[string]bool{}
	for _, f := range l.Files {
		if f.Pad && f.Length > 0 {
			if off%pl == 0 {
				cls["pad-at-piece-start"] = true
			}
			if off%pl == 0 && f.Length >= pl {
				cls["whole-piece-pad"] = true
			}
		}
		off += f.Length
	}
	var ks []string
	for k := range cls {
		ks = append(ks, k)
	}
	sort.Strings(ks)
	return strings.Join(ks, "+")
}

type webLog struct {
	mu   sync.Mutex
	reqs []string
	bad  []string
}

// checkLayout runs every geometry oracle on one layout; returns violations.
func checkLayout(l *gen.Layout, withWeb bool, web *webServer) (vs []viol, nontrivial string) {
	truth := l.Truth()
	infoBytes := l.InfoBytes(truth)
	info, err := metainfo.NewInfo(infoBytes, true, true)
	if err != nil {
		// layouts are valid by construction: total>0, lengths >=0, piece count exact
		return []viol{{"valid-layout-rejected", fmt.Sprintf("NewInfo rejected a valid layout %s: %v", l, err)}}, ""
	}
	prov := memstore.NewProvider("/mem")
	var mu sync.Mutex
	var writes []memstore.Event
	prov.Hooks.OnEvent = func(e memstore.Event) {
		if e.Kind == "write" && !e.Exit {
			mu.Lock()
			writes = append(writes, e)
			mu.Unlock()
		}
	}
	sto := prov.Get("t")
	// allocate the way the client does
	al := allocator.New()
	progC := make(chan allocator.Progress, len(info.Files)+1)
	resC := make(chan *allocator.Allocator, 1)
	al.Run(info, sto, progC, resC)
	if al.Error != nil {
		return []viol{{"alloc-error", fmt.Sprintf("allocator failed on %s: %v", l, al.Error)}}, ""
	}
	if len(al.Files) != len(l.Files) {
		return []viol{{"file-count", fmt.Sprintf("%s: %d files allocated, want %d", l, len(al.Files), len(l.Files))}}, ""
	}
	pieces := piece.NewPieces(info, al.Files)
	pl := int64(l.PieceLen)
	total := l.Total()
	np := int((total + pl - 1) / pl)
	add := func(sig, f string, a ...any) {
		if len(vs) < 5 {
			vs = append(vs, viol{sig, fmt.Sprintf("%s: ", l) + fmt.Sprintf(f, a...)})
		}
	}
	if len(pieces) != np || int(info.NumPieces) != np {
		add("piece-count", "NumPieces=%d len(pieces)=%d want %d", info.NumPieces, len(pieces), np)
		return vs, ""
	}
	// flat model: for every byte position which file/offset/padding
	type loc struct {
		file int
		off  int64
	}
	fileStart := make([]int64, len(l.Files)+1)
	for i, f := range l.Files {
		fileStart[i+1] = fileStart[i] + f.Length
	}
	names := make([]string, len(l.Files))
	for i := range l.Files {
		names[i] = filepath.FromSlash(l.JoinedPath(i))
	}
	// 1. tiling: sections in order cover the flat array exactly once
	var pos int64
	fi := 0
	for pi, p := range pieces {
		want := pl
		if pi == np-1 {
			want = total - int64(np-1)*pl
		}
		if int64(p.Length) != want {
			add("piece-length", "piece %d length %d want %d", pi, p.Length, want)
		}
		if p.Index != uint32(pi) {
			add("piece-index", "piece %d has Index %d", pi, p.Index)
		}
		if !bytes.Equal(p.Hash, info.PieceHash(uint32(pi))) {
			add("piece-hash", "piece %d hash slice mismatch", pi)
		}
		var sum int64
		for si, sec := range p.Data {
			if sec.Length < 0 {
				add("section-negative", "piece %d section %d negative length", pi, si)
				return vs, ""
			}
			if sec.Length == 0 {
				continue
			}
			// advance to the file that holds flat position pos
			for fi < len(l.Files) && fileStart[fi+1] <= pos {
				fi++
			}
			if fi >= len(l.Files) {
				add("tiling-overrun", "piece %d section %d beyond last file", pi, si)
				return vs, ""
			}
			if sec.Name != names[fi] || sec.Offset != pos-fileStart[fi] || sec.Padding != l.Files[fi].Pad {
				add("tiling-mismatch", "piece %d section %d is (%q,off %d,pad %v) but flat byte %d is (%q,off %d,pad %v)",
					pi, si, sec.Name, sec.Offset, sec.Padding, pos, names[fi], pos-fileStart[fi], l.Files[fi].Pad)
				return vs, ""
			}
			if sec.Offset+sec.Length > l.Files[fi].Length {
				add("section-beyond-file", "piece %d section %d crosses file end", pi, si)
				return vs, ""
			}
			pos += sec.Length
			sum += sec.Length
		}
		if sum != int64(p.Length) {
			add("section-sum", "piece %d sections sum %d, length %d", pi, sum, p.Length)
		}
	}
	if pos != total {
		add("tiling-short", "sections cover %d of %d bytes", pos, total)
	}
	if len(vs) > 0 {
		return vs, ""
	}
	// 2. blocks: exactly the non-padding bytes
	padAt := func(p int64) bool { // flat position -> padding?
		i := sort.Search(len(l.Files), func(i int) bool { return fileStart[i+1] > p })
		return l.Files[i].Pad
	}
	hasPad := false
	for pi := range pieces {
		p := &pieces[pi]
		base := int64(pi) * pl
		blocks := p.CalculateBlocks()
		covered := make([]bool, p.Length)
		var prevEnd uint32
		for bi, b := range blocks {
			if b.Length == 0 || b.Length > 16384 {
				add("block-size", "piece %d block %d length %d", pi, bi, b.Length)
			}
			if bi > 0 && b.Begin < prevEnd {
				add("block-overlap", "piece %d block %d begins %d before previous end %d (class %s)", pi, bi, b.Begin, prevEnd, layoutClass(l))
			}
			if uint64(b.Begin)+uint64(b.Length) > uint64(p.Length) {
				add("block-range", "piece %d block %d [%d,+%d) outside piece of %d (class %s)", pi, bi, b.Begin, b.Length, p.Length, layoutClass(l))
				continue
			}
			for k := b.Begin; k < b.Begin+b.Length; k++ {
				covered[k] = true
			}
			prevEnd = b.Begin + b.Length
		}
		for k := int64(0); k < int64(p.Length); k++ {
			pad := padAt(base + k)
			if pad {
				hasPad = true
			}
			if covered[k] == pad {
				kind := "gap (non-padding byte not requested)"
				if pad {
					kind = "padding byte requested"
				}
				add("block-cover:"+layoutClass(l), "piece %d byte %d: %s; blocks=%v", pi, k, kind, blocks)
				break
			}
		}
	}
	// 3. write every piece, then read sub-ranges back
	for pi := range pieces {
		p := &pieces[pi]
		base := int64(pi) * pl
		buf := append([]byte(nil), truth[base:base+int64(p.Length)]...)
		var nonpad int
		for k := range buf {
			if !padAt(base + int64(k)) {
				nonpad++
			}
		}
		var n int
		pt, ok := vx.Try(func() { n, err = p.Data.Write(buf) })
		if !ok {
			add("write-panic", "piece %d Write panicked: %s", pi, pt)
			continue
		}
		if err != nil || n != nonpad {
			add("write-result", "piece %d Write returned (%d,%v), non-padding bytes %d", pi, n, err, nonpad)
		}
	}
	// writes must target only non-padding files, inside their length
	mu.Lock()
	for _, w := range writes {
		idx := -1
		for i, nm := range names {
			if nm == w.Name && !l.Files[i].Pad {
				idx = i
			}
		}
		if idx < 0 {
			add("write-to-padding-or-unknown", "WriteAt on %q", w.Name)
			continue
		}
		if w.Off < 0 || w.Off+int64(w.Len) > l.Files[idx].Length {
			add("write-outside-file", "WriteAt %q off %d len %d, file length %d", w.Name, w.Off, w.Len, l.Files[idx].Length)
		}
	}
	mu.Unlock()
	for _, nm := range sto.OpenNames {
		for i, n2 := range names {
			if n2 == nm && l.Files[i].Pad {
				add("padding-opened", "padding file %q opened on storage", nm)
			}
		}
	}
	// store content equals truth for every non-padding file
	for i, f := range l.Files {
		if f.Pad {
			continue
		}
		got := sto.Snapshot(names[i])
		if !bytes.Equal(got, truth[fileStart[i]:fileStart[i+1]]) {
			add("file-content", "file %d content differs from truth after writing all pieces", i)
		}
	}
	// sub-range reads
	reads := 0
	for pi := range pieces {
		p := &pieces[pi]
		base := int64(pi) * pl
		bset := map[int64]bool{0: true, 1: true, int64(p.Length): true, int64(p.Length) - 1: true}
		var acc int64
		for _, sec := range p.Data {
			for _, d := range []int64{-1, 0, 1} {
				bset[acc+d] = true
			}
			acc += sec.Length
		}
		for k := int64(0); k <= int64(p.Length); k += 16384 {
			bset[k] = true
			bset[k-1] = true
			bset[k+1] = true
		}
		var bl []int64
		for b := range bset {
			if b >= 0 && b <= int64(p.Length) {
				bl = append(bl, b)
			}
		}
		sort.Slice(bl, func(i, j int) bool { return bl[i] < bl[j] })
		if len(bl) > 14 {
			// keep the search bounded: first, last and an even spread
			step := float64(len(bl)-1) / 13
			var nb []int64
			for i := 0; i < 14; i++ {
				nb = append(nb, bl[int(float64(i)*step)])
			}
			bl = nb
		}
		for i := 0; i < len(bl); i++ {
			for j := i + 1; j < len(bl); j++ {
				off, end := bl[i], bl[j]
				rb := make([]byte, end-off)
				for k := range rb {
					rb[k] = 0xEE
				}
				var n int
				var rerr error
				pt, ok := vx.Try(func() { n, rerr = p.Data.ReadAt(rb, off) })
				reads++
				if !ok {
					add("read-panic", "piece %d ReadAt(off %d,len %d) panicked: %s", pi, off, end-off, pt)
					continue
				}
				if rerr != nil || n != len(rb) || !bytes.Equal(rb, truth[base+off:base+end]) {
					add("read-mismatch", "piece %d ReadAt(off %d,len %d) = (%d,%v), bytes equal=%v", pi, off, end-off, n, rerr, bytes.Equal(rb, truth[base+off:base+end]))
				}
			}
		}
	}
	run.Count("subrange_reads", int64(reads))
	run.Count("pieces", int64(np))
	// 4. verifier over what was written: all ones
	{
		v := verifier.New()
		pc := make(chan verifier.Progress, np+1)
		rc := make(chan *verifier.Verifier, 1)
		pt, ok := vx.Try(func() { v.Run(pieces, pc, rc) })
		if !ok {
			add("verifier-panic", "verifier panicked: %s", pt)
		} else if v.Error != nil {
			add("verifier-error", "verifier error: %v", v.Error)
		} else if v.Bitfield.Count() != uint32(np) {
			add("verifier-incomplete", "verifier found %d of %d pieces after writing truth", v.Bitfield.Count(), np)
		}
	}
	// 5. web-seed jobs: buffers equal truth, ranges valid
	if withWeb && web != nil {
		vs = append(vs, checkWeb(l, truth, names, pieces, web, len(l.Files) > 1 || !l.Single)...)
	}
	cls := "plain"
	if hasPad {
		cls = "padded"
	}
	return vs, fmt.Sprintf("%s|%s", l.String(), cls)
}

type webServer struct {
	ln   net.Listener
	mu   sync.Mutex
	data map[string][]byte // url path -> content
	reqs []string
	bad  []string
}

func newWeb() *webServer {
	ln, err := net.Listen("tcp", "127.0.0.1:0")
	if err != nil {
		panic(err)
	}
	w := &webServer{ln: ln, data: map[string][]byte{}}
	go http.Serve(ln, http.HandlerFunc(w.serve))
	return w
}

func (w *webServer) serve(rw http.ResponseWriter, r *http.Request) {
	w.mu.Lock()
	d, ok := w.data[r.URL.Path]
	rg := r.Header.Get("Range")
	w.reqs = append(w.reqs, r.URL.Path+" "+rg)
	w.mu.Unlock()
	if !ok {
		w.mu.Lock()
		w.bad = append(w.bad, "unknown path "+r.URL.Path)
		w.mu.Unlock()
		http.Error(rw, "nf", 404)
		return
	}
	var a, b int64
	if _, err := fmt.Sscanf(rg, "bytes=%d-%d", &a, &b); err != nil || a < 0 || b < a || b >= int64(len(d)) {
		w.mu.Lock()
		w.bad = append(w.bad, fmt.Sprintf("range %q outside file %s of %d bytes", rg, r.URL.Path, len(d)))
		w.mu.Unlock()
		http.Error(rw, "range", 416)
		return
	}
	rw.Header().Set("Content-Length", strconv.FormatInt(b-a+1, 10))
	rw.WriteHeader(206)
	rw.Write(d[a : b+1])
}

var webClient = &http.Client{Timeout: 20 * time.Second}

func checkWeb(l *gen.Layout, truth []byte, names []string, pieces []piece.Piece, w *webServer, multifile bool) (vs []viol) {
	prefix := "/" + vx.Hash(l.String(), l.Seed) + "/"
	w.mu.Lock()
	off := int64(0)
	for i, f := range l.Files {
		if !f.Pad {
			if l.Single {
				w.data[prefix+names[i]] = truth[off : off+f.Length]
			} else {
				w.data[prefix+filepath.ToSlash(names[i])] = truth[off : off+f.Length]
			}
		}
		off += f.Length
	}
	w.reqs = nil
	w.bad = nil
	w.mu.Unlock()
	defer func() {
		w.mu.Lock()
		for k := range w.data {
			if strings.HasPrefix(k, prefix) {
				delete(w.data, k)
			}
		}
		w.mu.Unlock()
	}()
	np := len(pieces)
	pool := bufferpool.New(int(l.PieceLen))
	ranges := [][2]uint32{{0, uint32(np)}}
	if np > 1 {
		ranges = append(ranges, [2]uint32{1, uint32(np)}, [2]uint32{0, uint32(np - 1)})
	}
	if np > 2 {
		ranges = append(ranges, [2]uint32{uint32(np / 2), uint32(np/2 + 1)})
	}
	pl := int64(l.PieceLen)
	for _, rg := range ranges {
		url := "http://" + w.ln.Addr().String() + prefix
		ud := urldownloader.New(url, rg[0], rg[1], nil)
		resC := make(chan *urldownloader.PieceResult, np+2)
		doneC := make(chan string, 1)
		go func() {
			pt, ok := vx.Try(func() { ud.Run(webClient, pieces, !l.Single, resC, pool, 10*time.Second) })
			if !ok {
				doneC <- pt
			} else {
				doneC <- ""
			}
		}()
		next := rg[0]
		finished := false
		timeout := time.After(30 * time.Second)
	loop:
		for {
			select {
			case res := <-resC:
				if res.Error != nil {
					vs = append(vs, viol{"web-error", fmt.Sprintf("%s: web range [%d,%d): error result %v", l, rg[0], rg[1], res.Error)})
					break loop
				}
				if res.Index != next {
					vs = append(vs, viol{"web-order", fmt.Sprintf("%s: web range [%d,%d): got piece %d want %d", l, rg[0], rg[1], res.Index, next)})
					break loop
				}
				base := int64(res.Index) * pl
				if !bytes.Equal(res.Buffer.Data, truth[base:base+int64(pieces[res.Index].Length)]) {
					vs = append(vs, viol{"web-content", fmt.Sprintf("%s: web range [%d,%d): piece %d buffer differs from truth", l, rg[0], rg[1], res.Index)})
					break loop
				}
				res.Buffer.Release()
				next++
				if res.Done != (next == rg[1]) {
					vs = append(vs, viol{"web-done-flag", fmt.Sprintf("%s: web range [%d,%d): Done=%v at piece %d", l, rg[0], rg[1], res.Done, res.Index)})
					break loop
				}
				if res.Done {
					finished = true
					break loop
				}
			case pt := <-doneC:
				if pt != "" {
					vs = append(vs, viol{"web-panic", fmt.Sprintf("%s: web range [%d,%d): panic %s", l, rg[0], rg[1], pt)})
				} else if len(resC) == 0 {
					vs = append(vs, viol{"web-short", fmt.Sprintf("%s: web range [%d,%d): downloader returned after %d pieces", l, rg[0], rg[1], next-rg[0])})
				} else {
					doneC <- pt
					continue
				}
				break loop
			case <-timeout:
				run.Inconclusive("web downloader watchdog")
				break loop
			}
		}
		go ud.Close()
		_ = finished
		w.mu.Lock()
		for _, b := range w.bad {
			vs = append(vs, viol{"web-range", fmt.Sprintf("%s: web range [%d,%d): %s", l, rg[0], rg[1], b)})
		}
		run.Count("web_requests", int64(len(w.reqs)))
		w.bad = nil
		w.reqs = nil
		w.mu.Unlock()
		if len(vs) > 0 {
			break
		}
	}
	run.Count("web_ranges", int64(len(ranges)))
	return vs
}

// enumerate layouts on the boundary lattice.
func enumerate(maxFiles int, pls []uint32, f func(l *gen.Layout)) {
	for _, pl := range pls {
		lens := gen.BoundaryLens(int64(pl))
		var rec func(files []gen.FileSpec)
		rec = func(files []gen.FileSpec) {
			if len(files) > 0 {
				var tot int64
				for _, x := range files {
					tot += x.Length
				}
				if tot > 0 {
					l := &gen.Layout{Name: "enum", PieceLen: pl, Files: append([]gen.FileSpec(nil), files...), Seed: int64(pl)*1000003 + tot}
					f(l)
					if len(files) == 1 && !files[0].Pad {
						s := *l
						s.Single = true
						s.Files = []gen.FileSpec{{Length: files[0].Length}}
						f(&s)
					}
				}
			}
			if len(files) == maxFiles {
				return
			}
			i := len(files)
			for _, ln := range lens {
				for _, pad := range []bool{false, true} {
					if pad && ln == 0 {
						continue
					}
					fs := gen.FileSpec{Path: []string{fmt.Sprintf("f%d", i)}, Length: ln, Pad: pad}
					if pad {
						fs.Path = []string{".pad", fmt.Sprintf("%d_%d", i, ln)}
					}
					rec(append(files, fs))
				}
			}
		}
		rec(nil)
	}
}

func main() {
	run = vx.Begin("C02", "exploration",
		"layouts = boundary lattice (file lengths {0,1,16383,16384,16385,PL-1,PL,PL+1,2PL+7} x padding flag, enumerated) + PRNG layouts; per layout: NewInfo->allocator->NewPieces tiling, CalculateBlocks cover, Write+all boundary sub-range ReadAt, verifier, web-seed jobs vs an HTTP range server; plus create->parse->allocate->verify on generated directory trees. distinct = distinct (layout, padded?) reaching every oracle")
	logger.Disable()
	web := newWeb()
	var layouts []*gen.Layout
	if run.Quick() {
		enumerate(2, gen.PieceLens, func(l *gen.Layout) { layouts = append(layouts, l) })
		enumerate(3, []uint32{16384, 20000}, func(l *gen.Layout) {
			if len(l.Files) == 3 {
				layouts = append(layouts, l)
			}
		})
	} else {
		enumerate(3, gen.PieceLens, func(l *gen.Layout) { layouts = append(layouts, l) })
		enumerate(4, []uint32{16384, 20000}, func(l *gen.Layout) {
			if len(l.Files) == 4 {
				layouts = append(layouts, l)
			}
		})
	}
	nEnum := len(layouts)
	nRand := run.N(1500, 60000)
	for k := 0; k < nRand; k++ {
		r := run.Rand("layout", k)
		layouts = append(layouts, gen.RandomLayout(r, 12, 600_000))
	}
	run.Set("enumerated_layouts", nEnum)
	run.Set("prng_layouts", nRand)
	run.SetExhaustive(false)
	var sampled sync.Once
	vx.Parallel(len(layouts), runtime.NumCPU(), func(k int) {
		if run.Enough() {
			return
		}
		l := layouts[k]
		withWeb := k%7 == 0 || k >= nEnum
		var vs []viol
		var fp string
		pt, ok := vx.Try(func() { vs, fp = checkLayout(l, withWeb, web) })
		run.Eval(1)
		if !ok {
			vs = append(vs, viol{"panic:" + layoutClass(l), fmt.Sprintf("%s: panic %s", l, pt)})
		}
		for _, v := range vs {
			run.Violation(v.sig, v.what, map[string]any{"layout": l, "index": k})
		}
		if fp != "" {
			run.Distinct(fp)
			if k%997 == 3 {
				run.Sample(map[string]any{"layout": l.String(), "pieces": l.NumPieces(), "class": layoutClass(l)})
			}
			sampled.Do(func() { run.Sample(map[string]any{"layout": l.String(), "pieces": l.NumPieces()}) })
		}
	})
	// create -> parse -> allocate -> verify on directory trees
	nTrees := run.N(40, 1200)
	vx.Parallel(nTrees, runtime.NumCPU(), func(k int) {
		pt, ok := vx.Try(func() { checkTree(k) })
		if !ok {
			run.Violation("create-panic", fmt.Sprintf("tree %d: panic %s", k, pt), map[string]any{"tree": k})
		}
	})
	run.Finish(100)
}

func checkTree(k int) {
	r := run.Rand("tree", k)
	root := filepath.Join(run.Work, fmt.Sprintf("tree%d", k))
	defer os.RemoveAll(root)
	name := fmt.Sprintf("tt%d", k)
	top := filepath.Join(root, "src", name)
	os.MkdirAll(top, 0o755)
	single := r.Intn(5) == 0
	var total int64
	var desc []string
	if single {
		ln := []int64{1, 16384, 16385, 40000, 70000}[r.Intn(5)]
		b := make([]byte, ln)
		r.Read(b)
		os.RemoveAll(top)
		os.WriteFile(top, b, 0o644)
		total = ln
		desc = append(desc, fmt.Sprint(ln))
	} else {
		nf := 1 + r.Intn(7)
		for i := 0; i < nf; i++ {
			d := top
			for j := r.Intn(3); j > 0; j-- {
				d = filepath.Join(d, fmt.Sprintf("d%d", r.Intn(3)))
			}
			os.MkdirAll(d, 0o755)
			ln := []int64{0, 1, 16383, 16384, 16385, 32768, 32769, 50000, 100}[r.Intn(9)]
			b := make([]byte, ln)
			r.Read(b)
			fn := filepath.Join(d, fmt.Sprintf("f%d-%d", i, r.Intn(100)))
			os.WriteFile(fn, b, 0o644)
			total += ln
			desc = append(desc, fmt.Sprint(ln))
		}
	}
	if total == 0 {
		return
	}
	pls := []uint32{0, 16384, 32768, 49152}
	pln := pls[r.Intn(len(pls))]
	run.Eval(1)
	ib, err := metainfo.NewInfoBytes("", []string{top}, r.Intn(2) == 0, pln, "", logger.New("c02"))
	if err != nil {
		run.Violation("create-error", fmt.Sprintf("tree %d: NewInfoBytes: %v", k, err), nil)
		return
	}
	info, err := metainfo.NewInfo(ib, true, true)
	if err != nil {
		run.Violation("create-unparseable", fmt.Sprintf("tree %d (%v, PL %d): created info rejected by parser: %v", k, desc, pln, err), nil)
		return
	}
	// storage rooted at the parent of the torrent's own directory, as a session would have it
	fsto, err := filestorage.New(filepath.Join(root, "src"), 0o750)
	if err != nil {
		run.Inconclusive("filestorage.New: " + err.Error())
		return
	}
	al := allocator.New()
	progC := make(chan allocator.Progress, len(info.Files)+1)
	resC := make(chan *allocator.Allocator, 1)
	al.Run(info, fsto, progC, resC)
	if al.Error != nil {
		run.Violation("create-alloc", fmt.Sprintf("tree %d: allocation error %v", k, al.Error), nil)
		return
	}
	defer func() {
		for _, f := range al.Files {
			f.Storage.Close()
		}
	}()
	if al.HasMissing {
		run.Violation("create-missing", fmt.Sprintf("tree %d (%v): allocator did not find the files the torrent was created from", k, desc), nil)
		return
	}
	pieces := piece.NewPieces(info, al.Files)
	v := verifier.New()
	pc := make(chan verifier.Progress, len(pieces)+1)
	rc := make(chan *verifier.Verifier, 1)
	v.Run(pieces, pc, rc)
	if v.Error != nil || v.Bitfield.Count() != uint32(len(pieces)) {
		cnt := uint32(0)
		if v.Bitfield != nil {
			cnt = v.Bitfield.Count()
		}
		run.Violation("create-verify", fmt.Sprintf("tree %d (%v, PL %d): verifier has %d of %d pieces, err=%v", k, desc, pln, cnt, len(pieces), v.Error), nil)
		return
	}
	run.Count("trees_verified", 1)
	run.Distinct("tree|" + strings.Join(desc, ",") + fmt.Sprint(pln))
	if k == 0 {
		run.Sample(map[string]any{"tree_file_lengths": desc, "piece_length": pln, "pieces": len(pieces)})
	}
	_ = io.EOF
}
