// Package memconn is a buffered in-memory duplex connection (like a TCP socket
// pair: writes never block, reads return at most one written chunk), with
// deadlines. Chunk boundaries chosen by the writer are what the reader sees.
package memconn

import (
	"io"
	"net"
	"os"
	"sync"
	"time"
)

type half struct {
	mu     sync.Mutex
	cond   *sync.Cond
	chunks [][]byte
	closed bool // writer closed
	rdl    time.Time
	bytes  int64
}

func newHalf() *half { h := &half{}; h.cond = sync.NewCond(&h.mu); return h }

type Conn struct {
	rd, wr *half
	name   string
	once   sync.Once
}

type addr string

func (a addr) Network() string { return "mem" }
func (a addr) String() string  { return string(a) }

// Pipe returns the two ends.
func Pipe() (*Conn, *Conn) {
	x, y := newHalf(), newHalf()
	return &Conn{rd: x, wr: y, name: "a"}, &Conn{rd: y, wr: x, name: "b"}
}

func (c *Conn) Write(p []byte) (int, error) {
	h := c.wr
	h.mu.Lock()
	defer h.mu.Unlock()
	if h.closed {
		return 0, io.ErrClosedPipe
	}
	if len(p) > 0 {
		h.chunks = append(h.chunks, append([]byte(nil), p...))
		h.bytes += int64(len(p))
		h.cond.Broadcast()
	}
	return len(p), nil
}

func (c *Conn) Read(p []byte) (int, error) {
	h := c.rd
	h.mu.Lock()
	defer h.mu.Unlock()
	for len(h.chunks) == 0 {
		if h.closed {
			return 0, io.EOF
		}
		if !h.rdl.IsZero() && !time.Now().Before(h.rdl) {
			return 0, os.ErrDeadlineExceeded
		}
		if !h.rdl.IsZero() {
			d := time.Until(h.rdl)
			t := time.AfterFunc(d, func() { h.mu.Lock(); h.cond.Broadcast(); h.mu.Unlock() })
			h.cond.Wait()
			t.Stop()
		} else {
			h.cond.Wait()
		}
	}
	n := copy(p, h.chunks[0])
	if n == len(h.chunks[0]) {
		h.chunks = h.chunks[1:]
	} else {
		h.chunks[0] = h.chunks[0][n:]
	}
	return n, nil
}

// Close closes both directions (like closing a socket).
func (c *Conn) Close() error {
	for _, h := range []*half{c.rd, c.wr} {
		h.mu.Lock()
		h.closed = true
		h.cond.Broadcast()
		h.mu.Unlock()
	}
	return nil
}

// Unread reports how many bytes are queued for this end and not read yet.
func (c *Conn) Unread() int {
	c.rd.mu.Lock()
	defer c.rd.mu.Unlock()
	n := 0
	for _, ch := range c.rd.chunks {
		n += len(ch)
	}
	return n
}

func (c *Conn) LocalAddr() net.Addr  { return addr("mem-" + c.name) }
func (c *Conn) RemoteAddr() net.Addr { return addr("mem-peer-of-" + c.name) }
func (c *Conn) SetDeadline(t time.Time) error {
	return c.SetReadDeadline(t)
}
func (c *Conn) SetReadDeadline(t time.Time) error {
	c.rd.mu.Lock()
	c.rd.rdl = t
	c.rd.cond.Broadcast()
	c.rd.mu.Unlock()
	return nil
}
func (c *Conn) SetWriteDeadline(t time.Time) error { return nil }
