#!/bin/bash
# usage: seedcheck.sh <seed-id> <property> <agent-worktree> <demo-pkg-dir> <demo-run-regex> [tags]
# Confirms a seeded change independently in a fresh scratch worktree of /repo HEAD, stores it under
# /verif/seeded/<seed-id>/ and runs the property's quick check against the changed tree.
set -u
SID=$1; PROP=$2; WT=$3; PKG=$4; RUN=$5; TAGS=${6:-}
V=/verif; SC=/tmp/sc-$SID
git -C /repo worktree remove --force $SC 2>/dev/null; rm -rf $SC
git -C /repo worktree add -q --detach $SC HEAD || exit 9
mkdir -p $V/seeded/$SID
cp $WT/SEEDED/patch.diff $V/seeded/$SID/patch.diff
cp $WT/SEEDED/demo_test.go $V/seeded/$SID/demo_test.go 2>/dev/null
cp $WT/SEEDED/README.md $V/seeded/$SID/agent_README.md 2>/dev/null
cd $SC
mkdir -p $PKG; cp $V/seeded/$SID/demo_test.go $PKG/zz_seeded_demo_test.go
T=""; [ -n "$TAGS" ] && T="-tags $TAGS"
go test -mod=mod -vet=off -count=1 $T -run "$RUN" ./$PKG/ > /tmp/sc-$SID.nopatch.log 2>&1; A=$?
git apply $V/seeded/$SID/patch.diff || { echo "PATCH DOES NOT APPLY"; exit 8; }
go build -mod=mod ./... > /tmp/sc-$SID.build.log 2>&1; B=$?
go test -mod=mod -vet=off -count=1 $T -run "$RUN" ./$PKG/ > /tmp/sc-$SID.patch.log 2>&1; C=$?
rm -f $PKG/zz_seeded_demo_test.go
go test -mod=mod -vet=off -count=1 ./... 2>&1 | grep -a -E "^(FAIL|--- FAIL|panic)" > /tmp/sc-$SID.suite.log
SUITE=$(grep -a -c -- "--- FAIL" /tmp/sc-$SID.suite.log)
echo "demo without patch exit=$A (want 0); build=$B (want 0); demo with patch exit=$C (want !=0); suite failing tests=$SUITE (baseline 5)"
grep -a -- "--- FAIL" /tmp/sc-$SID.suite.log | head
cd $V
VERIF_REPO=$SC VX_OUT_DIR=$SC/.verifout ./check $PROP quick > /tmp/sc-$SID.check.log 2>&1; D=$?
echo "check $PROP quick on seeded tree: exit=$D"; grep -E "sig=" /tmp/sc-$SID.check.log | sort | uniq -c | head -5; tail -1 /tmp/sc-$SID.check.log | cut -c1-300
cat > $V/seeded/$SID/meta.json <<EOM
{"seed_id":"$SID","property":"$PROP","demo_pkg":"$PKG","demo_run":"$RUN","demo_tags":"$TAGS",
 "confirmed":{"demo_without_patch_exit":$A,"build_exit":$B,"demo_with_patch_exit":$C,"suite_failing_tests_with_patch":$SUITE,"baseline_failing_tests":5},
 "check_quick_exit_on_seeded_tree":$D,
 "ran":"git worktree of /repo HEAD; go test -run '$RUN' ./$PKG with and without patch; go test ./...; VERIF_REPO=<scratch> ./check $PROP quick"}
EOM
git -C /repo worktree remove --force $SC; rm -rf $SC
