#!/usr/bin/env python3
"""Regenerates the generated part of DESIGN.md (everything after the marker line):
tables of repairs / known findings, seeded changes and hand mutations with the check that catches each."""
import json, glob, os, subprocess
V=os.path.dirname(os.path.abspath(__file__))
MARK="<!-- GENERATED BELOW: python3 mkappendix.py -->"
kf=[json.loads(l) for l in open(V+'/known_findings.jsonl')]
out=[MARK,"","## 13. Tables generated from the committed records","",
"### 13.1 Genuine defects found by the checks","",
"`fixed` = repaired in /repo by the `fix:` commit shown (the entry suppresses nothing); `known` = recorded, reported as KNOWN-FINDING.","",
"| property | status | commit | signature | what failed |","|---|---|---|---|---|"]
def esc(s): return s.replace('|','\\|').replace('\n',' ')
for k in kf:
    out.append("| %s | %s | %s | `%s` | %s |"%(k['property'],k['status'],k.get('commit','') or '-',esc(k['sig'])[:90],esc(k['what'])[:330]))
log=subprocess.check_output(['git','-C','/repo','log','--format=%h %s','--grep=^fix:']).decode().strip().split('\n')
out+=["","### 13.2 `fix:` commits in /repo (newest first)",""]+["* `%s`"%l for l in log]
out+=["","### 13.3 Changes seeded by fresh sub-agents (kept under seeded/<id>/)","",
"| seed | property | demo | confirmed (demo passes without / fails with, suite unchanged) | quick check on the changed tree | note |","|---|---|---|---|---|---|"]
for f in sorted(glob.glob(V+'/seeded/*/meta.json')):
    m=json.load(open(f)); c=m.get('confirmed',{})
    conf="yes" if c.get('demo_without_patch_exit')==0 and c.get('demo_with_patch_exit') not in (0,None) and c.get('build_exit')==0 else "NO"
    out.append("| %s | %s | %s `%s` | %s (suite failing %s / baseline %s) | %s | %s |"%(m['seed_id'],m['property'],m.get('demo_pkg'),m.get('demo_run'),conf,c.get('suite_failing_tests_with_patch'),c.get('baseline_failing_tests'),"VIOLATION (exit 1)" if m.get('check_quick_exit_on_seeded_tree')==1 else "exit %s"%m.get('check_quick_exit_on_seeded_tree'),esc(m.get('note',''))[:300]))
out+=["","### 13.4 Hand-written mutations (selftest.py; applied to scratch copies only)","",
"| property | mutation | file | result | signatures raised |","|---|---|---|---|---|"]
for f in sorted(glob.glob(V+'/selftest/*.json')):
    for m in json.load(open(f)):
        out.append("| %s | %s | %s | %s | %s |"%(m['property'],m['name'],m.get('file') or m.get('patch',''),m.get('result'),esc(', '.join(s.replace('sig=','') for s in m.get('sigs',[])[:2]))[:200]))
import re
walls={}
for f in sorted(glob.glob(V+'/sweeps/*.log')):
    for l in open(f):
        m=re.match(r'(C\d+) tier=(\w+) seed=(\d+) exit=(\d+) violations=(\d+) wall=(\d+)s',l)
        if m and m.group(4)=='0':
            walls.setdefault(m.group(1),{})[m.group(2)]=(int(m.group(6)),m.group(3))
out+=["","### 13.5 Measured wall time of the last silent run per check and tier (16 cores, warm caches, includes the harness build)","","| check | quick | thorough |","|---|---|---|"]
for c in sorted(walls):
    q=walls[c].get('quick'); t=walls[c].get('thorough')
    out.append("| %s | %s | %s |"%(c, ("%d s (seed %s)"%q) if q else "-", ("%d s (seed %s)"%t) if t else "-"))
s=open(V+'/DESIGN.md').read()
if MARK in s: s=s[:s.index(MARK)]
open(V+'/DESIGN.md','w').write(s.rstrip('\n')+'\n\n'+'\n'.join(out)+'\n')
print("appendix: %d findings, %d seeds"%(len(kf),len(glob.glob(V+'/seeded/*/meta.json'))))
