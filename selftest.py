#!/usr/bin/env python3
"""Bite test: apply each hand-written mutation (M lists of DESIGN.md) to a scratch copy of
/repo (never /repo itself), run the property's quick check against it, expect VIOLATION.
usage: selftest.py [ID ...]   results -> selftest/<ID>.json"""
import json, os, shutil, subprocess, sys, tempfile, time
V = os.path.dirname(os.path.abspath(__file__))
MUTS = json.load(open(os.path.join(V, 'selftest_mutations.json')))
ids = sys.argv[1:] or sorted({m['property'] for m in MUTS})
os.makedirs(os.path.join(V, 'selftest'), exist_ok=True)
for pid in ids:
    res = []
    only = os.environ.get('SELFTEST_ONLY')
    for m in [m for m in MUTS if m['property'] == pid and (not only or m['name'] in only.split(','))]:
        d = tempfile.mkdtemp(prefix='vxmut.', dir='/dev/shm')
        try:
            subprocess.run(['rsync', '-a', '--exclude', '.git', '/repo/', d + '/'], check=True)
            stale = False
            if 'patch' in m:
                pr = subprocess.run(['patch', '-p1', '-s', '-i', os.path.join(V, m['patch'])], cwd=d, capture_output=True, text=True)
                if pr.returncode != 0:
                    res.append({**m, 'result': 'STALE (patch does not apply)'}); print(pid, m['name'], 'STALE'); continue
            for e in ([m] + m.get('more', [])) if 'patch' not in m else []:
                p = os.path.join(d, e['file'])
                s = open(p).read()
                if e['old'] not in s:
                    stale = True; break
                open(p, 'w').write(s.replace(e['old'], e['new'], 1))
            if stale:
                res.append({**m, 'result': 'STALE (old text not found)'}); print(pid, m['name'], 'STALE'); continue
            b = subprocess.run(['go', 'build', '-mod=mod', './...'], cwd=d, capture_output=True, text=True)
            if b.returncode != 0:
                res.append({**m, 'result': 'DOES NOT COMPILE', 'out': b.stderr[-400:]}); print(pid, m['name'], 'NOCOMPILE'); continue
            t0 = time.time()
            env = dict(os.environ, VERIF_REPO=d, VX_OUT_DIR=os.path.join(d, '.verifout'))
            os.makedirs(env['VX_OUT_DIR'], exist_ok=True)
            shutil.copy(os.path.join(V, 'known_findings.jsonl'), env['VX_OUT_DIR'])
            r = subprocess.run([os.path.join(V, 'check'), pid, m.get('tier', 'quick')], env=env, capture_output=True, text=True)
            caught = r.returncode == 1 and 'VIOLATION property=' + pid in r.stdout
            sigs = sorted({l.strip() for l in r.stdout.splitlines() if l.strip().startswith('sig=')})
            res.append({**m, 'result': 'CAUGHT' if caught else 'MISSED', 'exit': r.returncode, 'sigs': sigs[:6], 'wall_s': round(time.time() - t0, 1)})
            print(pid, m['name'], 'CAUGHT' if caught else 'MISSED rc=%d' % r.returncode, sigs[:3])
        finally:
            shutil.rmtree(d, ignore_errors=True)
    if only:
        old = {m['name']: m for m in json.load(open(os.path.join(V, 'selftest', pid + '.json')))} if os.path.exists(os.path.join(V, 'selftest', pid + '.json')) else {}
        for m in res:
            old[m['name']] = m
        res = list(old.values())
    json.dump(res, open(os.path.join(V, 'selftest', pid + '.json'), 'w'), indent=1)
