#!/usr/bin/env python3
"""Regenerates MANIFEST.json from the table below (kept valid at all times)."""
import json, os, subprocess
V = os.path.dirname(os.path.abspath(__file__))
BASE = json.load(open('/root/.vp/BASELINE.json'))['cmd'] if os.path.exists('/root/.vp/BASELINE.json') else ''
# id -> (level, technique, level text, level note, design ref)
CHECKS = {
 "C02": ("exploration", "reference-model monitor: flat byte-array model vs exported geometry functions on enumerated + PRNG layouts",
         "Runs the real NewInfo/allocator/NewPieces/CalculateBlocks/section Write+ReadAt/verifier/urldownloader on a boundary lattice of layouts (enumerated) plus PRNG layouts and compares each result with an independent flat byte-array model; every sub-range on each piece's boundary set is read back. Held-on-what-was-observed, not a proof.",
         "Trusts the generator's flat model and own bencode writer; layouts larger than the bounds (<=12 files, <=600 kB) are not explored.", "4/C02"),
 "C09": ("exploration", "shadow-model monitor over the real PiecePicker driven by a transcription of the torrent's event handlers on PRNG event histories",
         "Drives the real picker with thousands of PRNG histories (have/bitfield/allowed-fast/choke/unchoke/snub/disconnect/complete/hash-fail/web-seed pick, advance, stop-at, steal, close) in the call order the torrent loop uses and compares a shadow model after every operation: pick legality, one download per peer, end-game limit, web-seed range disjointness, Available(), sequential lowest-index rule.",
         "Legality of operation orders is a transcription of torrent/*.go handlers; sequential rule asserted only when no web-seed download is active and every file-edge piece is taken, with granted allowed-fast pieces allowed to come first (the client's documented ladder).", "4/C09"),
 "C11": ("exploration", "reference-codec monitor: bytes emitted by the real peerwriter/btconn compared with an independent encoder; fragmenting pipe into the client's reader; upload counter conservation",
         "Every byte the real writer emits for PRNG message sequences (all kinds, boundary field values) must equal an independent BEP 3/6/9/10/11 reference encoding; the same stream, re-fragmented by 5 patterns, must come out of the client's own reader as identical messages; sum of BlockUploaded equals piece payload bytes on the wire; handshake bytes via Dial/Accept equal the 68-byte layout.",
         "Reference codec written from the BEPs; bencode dictionaries expected in canonical key order; queue-policy transformations of the writer (reject on overflow/duplicate, choke cancelling queued pieces) are excluded from the generated sequences.", "4/C11"),
 "C12": ("exploration", "two-ended handshake monitor against an independent MSE implementation with enumerated pad lengths; policy matrix against reference endpoints",
         "Every handshake is observed at both ends: outcome agreement (both fail / both succeed with one offered cipher), byte identity of initial payload and of both stream directions, must-fail cases (wrong key, corrupt VC, illegal selection). The reference side enumerates its own pad lengths (all values 0..511 for each of the four pads) under several transport chunkings; btconn.Accept/Dial are run against reference endpoints for every consistent force/disable setting, counting plaintext attempts.",
         "Reference MSE is written from the MSE/PE specification. rain's own pad lengths are random (not controllable without a hook): covered by repetition only. Session-level use of the flags is covered where C10/C17 sessions run with encryption settings.", "4/C12"),
 "C16": ("exploration", "trace monitor vs cyclic tier model; bounded-retry monitor on the announcer at quiescence with load canary; reply fuzzing of the real HTTP/UDP tracker clients in child processes against reference servers",
         "Tier rotation is compared announce by announce with a cyclic model over PRNG success/failure patterns (incl. more failures than members and simultaneous failing announces). The PeriodicalAnnouncer is driven with scripted outcomes (error, timeout, decode error, tracker error, a cancellation it did not request) and, with the real UDP transport, two announcers share a tracker that never answers connect: the next announce must follow within the bounded back-off. Generated HTTP bodies and UDP datagrams (structure-aware, mutated, random; wrong/duplicate/short transactions; endless body) must yield an error or well-formed peers, never a crash or a foreign transaction's peers.",
         "Back-off schedule (5 s x 2^i +-50 %) is a constant of the code: only the first one or two steps are watched; 'indefinitely' is 20-100 announces per pattern. Response-limit oracle measures what a reference server could push (limit + 64 MiB slack for kernel buffers).", "4/C16"),
 "C18": ("exploration", "reference-model monitors: linear scan vs Blocked() over PRNG rule lists and reloads; reference bounded priority set vs the candidate address queue",
         "Blocked() is compared with a linear scan at every range endpoint +-1, the extremes and PRNG points after each of 1-4 reloads of generated rule lists (overlapping, nested, adjacent, /0../32, duplicates, comments, malformed lines), also while reloading concurrently. Push/Pop/Reset histories on the address list are compared with a reference bounded priority set after every operation (filters, max-priority pop, bound, no resurrection, per-source counts).",
         "Session-level 'never dials/accepts/announces to a filtered address' (own address, duplicate IP, banned IP, blocked IP) is observed by the session scenarios of this check once built; until then only the component level is claimed. Eviction victim among equal time stamps is left free.", "4/C18"),
 "C01": ("exploration", "offline trace checker over recorded storage writes, peer-observed have/bitfield frames, Stats() samples and resume data of real download sessions with hostile scripted peers and web seeds",
         "Each scenario runs a real leeching session on recording storage against scripted honest/hostile peers and web seeds (child processes). An offline pass in global sequence order checks: every WriteAt payload equals the metainfo content at that position and targets a real file; every have / bitfield / have-all frame a peer received, every Stats() sample and the resume bitfield only claim pieces whose bytes had all been stored before; completion implies byte-identical files; in single-source probes the peer that delivered a corrupt piece is dropped and never reconnected although its address keeps being offered.",
         "Sequence numbers are drawn at the recorder (storage wrapper entry/exit, frame receipt by the scripted peer), so 'claim observed after write returned' is causally sound. Ban behaviour is judged only in single-source probes (elsewhere a stale piece is indistinguishable from a failed one without a hook). SHA-1 collisions out of scope.", "4/C01"),
 "C03": ("exploration", "online request/response matcher at scripted leecher sockets against ground truth over a read-cache configuration lattice; concurrent reference-model check of the cached piece reader",
         "Scripted leechers (plain/RC4, fast/non-fast) send generated request streams to a partially complete seeding session for each drawn read-cache configuration; every piece frame must answer an outstanding request with exactly the requested length and the torrent's bytes, only for pieces the client advertised, never for out-of-range / zero-length / >16 KiB / wrapping requests, and never after a choke without an allowed-fast grant. cachedpiece.ReadAt is additionally driven by 8 concurrent readers over tiny caches with 1 ms expiry.",
         "TCP order on one connection equals the client's write order. Rejects are not used to retire requests (the client answers every cancel with a reject).", "4/C03"),
 "C10": ("exploration", "completion monitor with byte compare on recording storage; quiescence-based stuck detector with load canary, in child processes",
         "PRNG product of layout x picker mode x encryption policy pair x source mix (scripted honest seeders incl. choke/unchoke cycles, web seeds, both) x .torrent/magnet x 0-3 hostile other peers; with one reachable honest full source every scenario must end with NotifyComplete and byte-identical files. A scenario that neither completes nor moves for 3 s (stats, socket byte counters, web-seed requests; canary on time) is a stuck violation; otherwise inconclusive.",
         "End-game duplicate limit is left at its default (the statement does not quantify over it); a 'reject' from an unchoked source is not treated as honest behaviour. 'Always' = finite schedules explored.", "4/C10"),
 "C04": ("exploration", "history explorer in child processes: per-step truthfulness predicates on Stats() + storage handles + stored bytes, bounded-progress predicates at quiescence (load canary), final convergence run; crashes and hangs via exit status / call watchdog / rain's own health check",
         "Regression shapes + enumerated + PRNG command histories (start, stop, verify, announce, addpeer, addtracker, stats, waits, corrupt/truncate/delete files while stopped, close+reopen) under slow Open/ReadAt/WriteAt and scripted tracker answers to 'stopped'. After every step one Stats() sample is judged (Seeding => all pieces stored and hashing; Stopped => no peers, downloads, handshakes, open data files; Bytes.Completed consistent with Pieces.Have); at quiescence the last of start/stop/verify must have taken effect, a verification must not request data; finally Start + reachable honest seed must end Seeding with byte-identical files. A child death is a crash violation keyed by panic text and rain frame.",
         "Mutations only while Stopped and quiescent. A Start issued while a verification is pending is not judged. One known finding: files corrupted/truncated while stopped are trusted on the next start (see known_findings.jsonl).", "4/C04"),
 "C08": ("exploration", "fuzzing of the real peer reader with an allocation monitor (TotalAlloc delta per announced frame); attacked sessions in child processes with liveness oracles (honest transfer completes, Stats answers, exit status, rain's health check)",
         "Generated byte streams (hostile field values, odd declared lengths, unknown ids, hostile bencoded extension payloads, deep nesting) are fed to the client's reader, followed by a frame header announcing up to 4 GiB with no body: the process may not allocate beyond the configured maximum message size. Sessions in six states (metadata unknown, allocating, verifying, downloading, seeding, stop/start mid-attack) are attacked by 1-3 scripted peers sending grammar-generated frame sequences incl. early-queued have/bitfield mixes, then an oversized header / truncated frame / garbage; an honest peer's transfer must complete with correct files, Stats() must keep answering, the process must not die.",
         "Allocation is measured process-wide in a quiet child (256 KiB slack). The attack grammar is the scripted repertoire; a crash is keyed by normalised panic text and first rain frame.", "4/C08"),
 "C15": ("exploration", "trace automaton + field equality over raw announces recorded by independent HTTP and UDP trackers (receiver time stamps) and the peer id seen by a scripted peer",
         "Sessions announce to one HTTP and one UDP reference tracker whose replies are scripted (ok / failure / silence / garbage / flaky, interval and min-interval from {absent,0,-1,-2^31,1,2,2^31-1}) through 1-2 start/stop runs with bursts of manual announces, starting empty or complete. Each recorded announce must carry the torrent's info-hash, the 20-byte peer id the scripted peer saw in the handshake, the listening port, counters that are bounded by the torrent's and monotone; per tracker and run: first event started, completed at most once and only on completion during the run, stopped only after an accepted announce; consecutive event-less announces respect the lower bound.",
         "Spacing is measured at the receiver: judged only when a gap undercuts the bound by more than 300 ms while the load canary was on time. 'left' is recorded, not judged. Counter order is judged only for announces that arrived more than 300 ms apart.", "4/C15"),
 "C13": ("exploration", "reference-parser monitor for magnet links (package and public API level); adopted-metadata hash monitor on magnet sessions fed by scripted honest/lying peers",
         "Generated magnet values are rendered by the client and read back by the client and by an independent parser, foreign spellings are parsed, and AddURI(stopped) -> Torrent.Magnet() is checked through the API (hash, name, tiers as multiset of sets, peers). Magnet sessions get 1-4 scripted peers that are honest or lie about the metadata (wrong total size, short/long piece, duplicates, unrequested index, garbage, reject, wrong content, other torrent of equal size, content whose SHA-1 shares the first byte, stall, wrong/oversized metadata_size): whatever is adopted (NotifyMetadata, Torrent(), Stats().Name) must hash to the link's info-hash; a peer announcing more than MaxMetadataSize never receives a metadata request; with one honest peer the fetch must complete.",
         "'Eventually' = within 40 s while honest peers keep being offered (load canary consulted). Tier order is not judged. Peer strings are address-shaped.", "4/C13"),
}
PENDING = {}
props = [json.loads(l) for l in open(os.path.join(V, 'properties.jsonl'))]
hooks_commits = []
hf = os.path.join(V, 'hooks_commits.txt')
if os.path.exists(hf):
    hooks_commits = [l.split()[0] for l in open(hf) if l.strip()]
m = {
 "version": 1,
 "setup_cmd": "./setup.sh",
 "hooks": {
  "guard": "verif",
  "enable": "go1.26.8 build -tags verif (inside a scratch copy of /repo made by ./check; harness packages are copied under verifx/)",
  "baseline_off_cmd": BASE,
  "source_commits": hooks_commits,
  "add_only": True,
 },
 "engines": [{"name": "vx", "path": "check", "serves_properties": sorted(CHECKS), "kind_free_text": "runtime monitoring: per-property Go harness built inside a scratch copy of /repo's working tree; reference peers/trackers/storage as recorders; offline oracles; Go race detector; porcupine"}],
 "checks": [], "not_applicable": [],
 "notes": "Every check: ./check <id> quick|thorough. exit 0 held on what was observed, 1 VIOLATION, 2 INCONCLUSIVE. Known findings: known_findings.jsonl.",
}
for p in props:
    i = p['id']
    if i in CHECKS:
        lvl, tech, text, note, ref = CHECKS[i]
        m["checks"].append({"property_id": i, "quick_cmd": f"./check {i} quick", "thorough_cmd": f"./check {i} thorough",
            "evidence_file": f"evidence/{i}.json", "replay_cmd_template": f"./check {i} quick --replay {{path}}", "engine": "vx",
            "level_claimed": {"category": lvl, "text": text, "design_ref": "DESIGN.md section " + ref},
            "level_note": note, "technique": tech})
    else:
        m["not_applicable"].append({"property_id": i, "reason": PENDING.get(i, "check not built yet in this session (runtime monitoring applies; see DESIGN.md section 4); not claimed until its harness exists and is silent on the unchanged tree")})
json.dump(m, open(os.path.join(V, 'MANIFEST.json'), 'w'), indent=1)
print("checks:", [c['property_id'] for c in m['checks']])
