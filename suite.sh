#!/bin/bash
# Runs the repository's own test suite (hooks off) and prints pass/fail counts.
export GOFLAGS=-mod=mod GOPROXY=off
cd ${1:-/repo} && go test -mod=mod -json -vet=off -count=1 -timeout 25m ./... 2>/dev/null | python3 -c "
import sys,json
p=f=0; fails=[]
for l in sys.stdin:
    try: d=json.loads(l)
    except: continue
    if d.get('Test') and d.get('Action')=='pass': p+=1
    if d.get('Test') and d.get('Action')=='fail': f+=1; fails.append(d['Package'].split('/')[-1]+'.'+d['Test'])
print('pass',p,'fail',f,sorted(fails))"
